// Several Colvars instances ("walkers") in one process: each walker is a task of
// the deterministic scheduler with its own Engine; the block of colvarmodule
// statics is swapped on every walker switch (engine.cpp).  Instances are
// abandoned, never destroyed, while another one may still be alive.
#pragma once
#include <functional>
#include <memory>
#include <string>
#include <vector>
#include "simrun.h"

namespace sim {

struct Walker {
  int w = 0;
  EngineCfg ec;
  std::string config;
  std::vector<J> ops;               // this walker's ops, in plan order
  Engine *e = nullptr;              // current instance (abandoned ones are leaked on purpose)
  std::vector<Engine *> abandoned;
  bool finished = false;
  long resumes = 0, kills = 0, halts = 0;
  std::string last_halt;
  // hooks
  std::function<void(Walker &, long step)> after_step;
  std::function<void(Walker &, long step)> before_step;
  std::function<void(Walker &, J const &op)> after_op;
  std::function<void(Walker &)> on_new_instance;   // after construct+configure(+load)
  std::string fail;                 // harness-level failure (e.g. configuration rejected)
};

// Runs all walkers to completion under the scheduler; returns when every walker finished its ops.
void run_walkers(std::vector<Walker> &ws);

// Helpers to read arrays out of a text state
// returns the numbers that follow `key` inside the block of bias `bias_name` (skipping a grid_parameters block)
bool state_array(std::string const &state, std::string const &bias_name, std::string const &key, std::vector<double> &out);

}  // namespace sim
