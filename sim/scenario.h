// A full scenario: engine configuration + Colvars configuration text.
#pragma once
#include "engine.h"
#include "scen.h"

namespace sim {

struct ScenOpts {
  long T = 60;
  int max_biases = 2;
  int max_cvs = 2;
  std::vector<std::string> templates;      // allowed bias templates (empty: all)
  std::vector<std::string> cv_kinds = {"distance", "distanceZ", "dihedral", "angle", "distanceXY"};
  double p_extended = 0.0;                 // probability that a variable is extended-Lagrangian
  double p_excursion = 0.5;                // probability that the grid covers only part of the range
  bool allow_mts = true;
  double p_subtract = 0.0;                 // probability that a variable whose total force is read has subtractAppliedForce on
  int traj_freq = 1;
  int restart_freq = 0;
  bool smp = false;
};

struct Scenario {
  EngineCfg ec;
  std::string tmpl;            // template signature, e.g. "distance+dihedral|abf,harm_fixed"
  std::string config;          // verbatim Colvars configuration
  long T = 0;
  std::vector<CvSpec> cvs;
  std::vector<BiasSpec> biases;
  std::vector<std::vector<int>> bias_cvs;   // indices of the variables of each bias
  std::vector<std::pair<double, double>> ranges;
  J to_json() const;
};

Scenario gen_scenario(Rng &r, ScenOpts const &o);
// from a plan's "scenario" object: engine cfg, config text, T
void scenario_from_json(J const &j, EngineCfg &ec, std::string &config, long &T);

}  // namespace sim

namespace sim {
// shrink candidates that simplify plan["scenario"]["config"]: drop whole bias /
// colvar blocks, drop single option lines
void shrink_scenario_config(J const &plan, std::vector<J> &out);
// coarse feature summary of a configuration: bias block keywords present, flags
std::string config_features(std::string const &config);
}
