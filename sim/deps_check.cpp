#include "deps_check.h"
#include <algorithm>

namespace sim {

std::vector<colvardeps::feature_state> const &DepsAccess::states(colvardeps *o) { return colvars_verif_access::dep_states(o); }
std::vector<colvardeps *> const &DepsAccess::children(colvardeps *o) { return colvars_verif_access::dep_children(o); }
std::vector<colvardeps *> const &DepsAccess::parents(colvardeps *o) { return colvars_verif_access::dep_parents(o); }

namespace {
void check_obj(colvardeps *o, std::set<colvardeps *> &seen, std::string &err, std::string &sig, long &count) {
  if (!err.empty() || seen.count(o)) return;
  seen.insert(o);
  count++;
  auto const &fs = DepsAccess::states(o);
  auto const &ft = o->features();
  size_t nf = std::min(fs.size(), ft.size());
  bool active = nf > 0 && fs[0].enabled;
  for (size_t f = 0; f < nf && err.empty(); f++) {
    if (!fs[f].enabled) continue;
    colvardeps::feature *F = ft[f];
    for (int g : F->requires_self)
      if (g >= 0 && (size_t)g < nf && !fs[(size_t)g].enabled) { err = o->description + ": feature \"" + F->description + "\" is enabled but its prerequisite \"" + ft[(size_t)g]->description + "\" is not"; sig = "requires_self/" + F->description; return; }
    for (int g : F->requires_exclude)
      if (g >= 0 && (size_t)g < nf && fs[(size_t)g].enabled) { err = o->description + ": mutually exclusive features \"" + F->description + "\" and \"" + ft[(size_t)g]->description + "\" are both enabled"; sig = "exclude/" + F->description; return; }
    for (auto const &alt : F->requires_alt) {
      bool any = false;
      for (int g : alt) if (g >= 0 && (size_t)g < nf && fs[(size_t)g].enabled) any = true;
      if (!any && !alt.empty()) { err = o->description + ": feature \"" + F->description + "\" is enabled but none of its alternative prerequisites is"; sig = "requires_alt/" + F->description; return; }
    }
    if (active)
      for (int g : F->requires_children)
        for (colvardeps *c : DepsAccess::children(o)) {
          auto const &cs = DepsAccess::states(c);
          if (g >= 0 && (size_t)g < cs.size() && !cs[(size_t)g].enabled) {
            err = o->description + ": feature \"" + F->description + "\" needs \"" + c->features()[(size_t)g]->description + "\" in its child " + c->description + ", which is off";
            sig = "requires_children/" + F->description; return;
          }
        }
    if (fs[f].ref_count < 0) { err = o->description + ": negative reference count of \"" + F->description + "\""; sig = "refcount/" + F->description; return; }
  }
  // parent/child links are mutual
  for (colvardeps *c : DepsAccess::children(o)) {
    auto const &ps = DepsAccess::parents(c);
    if (std::find(ps.begin(), ps.end(), o) == ps.end()) { err = o->description + ": child " + c->description + " does not list it as a parent"; sig = "links"; return; }
    check_obj(c, seen, err, sig, count);
  }
}
}  // namespace

std::string check_deps(colvarmodule *m, std::string &sig, long *objects_checked) {
  std::string err;
  std::set<colvardeps *> seen;
  long count = 0;
  for (colvar *cv : *m->variables()) check_obj(cv, seen, err, sig, count);
  for (colvarbias *b : m->biases) check_obj(b, seen, err, sig, count);
  if (objects_checked) *objects_checked += count;
  return err;
}


std::string enabled_features(colvardeps *o) {
  std::string fl; auto const &st = DepsAccess::states(o);
  for (size_t f = 0; f < st.size() && f < o->features().size(); f++) if (st[f].enabled) fl += o->features()[f]->description + ";";
  return fl;
}

std::map<std::string, std::string> module_features(colvarmodule *m) {
  std::map<std::string, std::string> r;
  for (colvar *cv : *m->variables()) r["variable " + cv->name] = enabled_features(cv);
  for (colvarbias *b : m->biases) r["bias " + b->name] = enabled_features(b);
  return r;
}

bool feature_difference(std::map<std::string, std::string> const &test, std::map<std::string, std::string> const &twin, std::string &sig, std::string &text) {
  bool found = false;
  for (auto const &kv : twin) {
    auto it = test.find(kv.first);
    if (it == test.end() || it->second == kv.second) continue;
    std::set<std::string> fa, fb; std::string cur;
    for (char ch : it->second) { if (ch == ';') { fa.insert(cur); cur.clear(); } else cur += ch; }
    for (char ch : kv.second) { if (ch == ';') { fb.insert(cur); cur.clear(); } else cur += ch; }
    std::string which, how; bool preferred = false;
    if (fa.count("hide_Jacobian_force") && !fb.count("hide_Jacobian_force")) { which = "hide_Jacobian_force"; how = "on_but_off_in_twin"; preferred = true; }
    if (which.empty()) for (auto const &f : fb) if (!fa.count(f)) { which = f; how = "off_but_on_in_twin"; break; }
    if (which.empty()) for (auto const &f : fa) if (!fb.count(f)) { which = f; how = "on_but_off_in_twin"; break; }
    if (which.empty()) continue;
    if (!found || preferred) {
      std::string kind = kv.first.substr(0, kv.first.find(' '));
      sig = "feature_differs/" + kind + "/" + which + "/" + how;
      text = kv.first + ": feature \"" + which + "\" is " + (how == "off_but_on_in_twin" ? "off, but on in the twin" : "on, but off in the twin");
      found = true;
      if (preferred) return true;
    }
  }
  return found;
}

}  // namespace sim
