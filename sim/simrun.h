// Per-run setup/teardown of the simulated environment inside a worker.
#pragma once
#include <vector>
#include "baton.h"
#include "engine.h"
#include "fs.h"
#include "harness.h"
#include "simgomp.h"

namespace sim {

struct SimRun {
  explicit SimRun(int n_walkers = 1, std::vector<int> const &sched = {}, int threads = 1, uint64_t yield_budget = 2000000) {
    fs().reset();
    fs().active = true;
    net().reset(n_walkers);
    walkers_reset(n_walkers);
    sched_reset(sched.data(), sched.size(), yield_budget);
    gomp_set_threads(threads);
    gomp_stats() = GompStats();
  }
  ~SimRun() {
    fs().active = false;
    sched_set_switch_hook(nullptr);
  }
  // fold environment statistics into a run result
  void finish(RunResult &r) {
    FsStats const &st = fs().stats;
    for (int k = 0; k < FS_NKINDS; k++) if (st.calls[k]) r.counters[std::string("fs.") + fs_kind_names[k]] += (long long)st.calls[k];
    for (int k = 0; k < FF_NKINDS; k++) if (st.faults_fired[k]) r.counters[std::string("fault.") + fs_fault_names[k]] += (long long)st.faults_fired[k];
    if (st.chunked_writes) r.counters["fault.chunked_write"] += (long long)st.chunked_writes;
    SchedStats const &ss = sched_stats();
    if (ss.yields) r.counters["sched.yields"] += (long long)ss.yields;
    if (ss.switches) r.counters["sched.switches"] += (long long)ss.switches;
    if (ss.group_switches) r.counters["sched.walker_switches"] += (long long)ss.group_switches;
    if (ss.blocked_waits) r.counters["sched.blocked_waits"] += (long long)ss.blocked_waits;
    r.fingerprint = fnv_u64(ss.fingerprint, r.fingerprint ? r.fingerprint : 1469598103934665603ULL);
  }
};

inline void add_steps(RunResult &r, Engine const &e) {
  r.counters["steps"] += (long long)e.steps_done;
  r.counters["sim_fs"] += (long long)((double)e.steps_done * e.cfg.dt);
}

inline uint64_t hash_recs(std::vector<StepRec> const &rec, uint64_t h) {
  for (auto const &s : rec) h = fnv_u64(s.hash(), h);
  return h;
}

}  // namespace sim
