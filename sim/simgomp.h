#pragma once
#include <cstdint>
namespace sim {
struct GompStats {
  uint64_t regions_parallel = 0, regions_serial = 0, barriers = 0, singles = 0;
  uint64_t lock_acquired = 0, lock_contended = 0;
};
void gomp_set_threads(int n);
int gomp_get_threads();
GompStats &gomp_stats();
}
