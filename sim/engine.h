// sim::Engine — simulated MD engine behind the colvarproxy boundary.
#pragma once
#include <cstdint>
#include <deque>
#include <functional>
#include <map>
#include <mutex>
#include <string>
#include <vector>

#include "colvarmodule.h"
#include "colvarproxy.h"
#include "colvar.h"
#include "colvarbias.h"
#include "colvarscript.h"
#include "colvarbias_meta.h"
#include "colvarbias_opes.h"
#include "colvarbias_abf.h"
#include "colvarcomp.h"
#include "colvaratoms.h"
#include "colvargrid.h"

#include "json.h"
#include "rng.h"
#include "traj.h"

namespace sim {

struct EngineCfg {
  int walker = 0;
  int n_walkers = 1;
  int natoms = 12;
  uint64_t data_seed = 1;
  bool pbc = false;
  double box = 40.0;
  double dt = 1.0;
  double temperature = 300.0;
  bool forces_late = false;       // true: F(t-1)+F_colvars(t-1) delivered at t (NAMD); false: F_sys(t) at t
  double traj_amp = 0.8;          // amplitude of the kinematic motion (A)
  double force_amp = 2.0;         // amplitude of the smooth atomic system forces
  std::string out_prefix;         // default /simfs/w<walker>/out
  std::string restart_prefix;     // "" : periodic restarts go to the output prefix
  int restart_freq = 0;           // engine's default restart frequency
  bool binary_state = false;
  bool smp = false;               // smp_mode cvcs
  int threads = 1;
  bool closed_loop = false;       // atoms integrate under F_sys + F_colvars (velocity Verlet)
  bool frozen = false;            // atoms do not move at all
  bool setup_each_run = false;    // LAMMPS-like protocol: every run re-reads the engine parameters and calls setup_input()/setup_output()
  uint64_t noise_seed = 7;
  int log_keep = 400;
  void to_json(J &j) const;
  void from_json(J const &j);
};

struct StepRec {
  long step = 0;
  bool continuing = false;
  int err = 0;
  double energy = 0;
  std::vector<double> cv;       // values of all variables, flattened, definition order
  std::vector<int> cv_off;      // offset of each variable in cv (size nvars+1)
  std::vector<double> bias_e;   // energy of each bias, definition order
  std::vector<double> fapp;     // 3*natoms: forces Colvars applied, by atom id
  std::vector<double> cv_ft;    // total force of each variable (flattened like cv), 0 where not enabled
  std::vector<double> cv_fa;    // applied (bias) force on each variable, flattened
  uint64_t hash() const;
};

// Message transport between walkers (MPI-like, reliable, ordered)
struct Net {
  int n = 1;
  std::map<std::pair<int, int>, std::deque<std::string>> q;
  int bar_arrived = 0;
  long bar_gen = 0;
  std::vector<bool> alive;
  uint64_t sent = 0, received = 0, barriers = 0, bytes = 0;
  void reset(int nw) { n = nw; q.clear(); bar_arrived = 0; bar_gen = 0; alive.assign((size_t)nw, true); sent = received = barriers = bytes = 0; }
};
Net &net();

// Block of colvarmodule statics swapped on a walker context switch
struct ModuleStatics {
  colvarproxy *proxy = nullptr;
  cvm::step_number it = 0, it_restart = 0;
  int errorCode = 0, log_level = 10;
  size_t cv_traj_freq = 0, restart_out_freq = 0;
  bool use_scripted_forces = false, scripting_after_biases = true;
  cvm::real debug_gradients_step_size = 1e-7;
  bool monitor_crossings = false;
  cvm::real crossing_threshold = 1e-2;
  void save();
  void load() const;
};
void walkers_reset(int n);           // prepare n statics slots and install the scheduler hook
ModuleStatics &walker_statics(int w);

class Engine : public colvarproxy {
public:
  explicit Engine(EngineCfg const &cfg);
  ~Engine() override;

  EngineCfg cfg;
  std::vector<StepRec> rec;
  bool record = true;
  long first_step = 0;      // absolute step at which the next run starts
  bool first_run = true;
  std::deque<std::string> log_lines, error_lines;
  uint64_t n_log = 0, n_err = 0;
  uint64_t steps_done = 0;
  double energy_acc = 0;    // add_energy accumulator of the current step
  int gauss_calls = 0;      // per-step counter for the counter-based noise

  // scripted forces / custom colvars as closures
  std::function<int()> force_callback;
  // called after every calc() of run() (observation hook for the properties)
  std::function<void(long step)> after_step;
  std::function<void(long step)> before_step;   // called before the calc() of each step (inputs not yet filled)

  // ---- driving ----
  int configure(std::string const &conf);                 // read_config_string
  int load_state(std::string const &prefix);              // set_input_prefix + setup_input
  int load_state_string(std::string const &state);
  // run n steps: calc at first_step .. first_step+n (the first one is the repeated step unless first run)
  int run(int n, bool graceful_end);
  int single_step();                                      // one calc at the current position of the protocol
  int end_run();                                          // post_run()
  std::string save_state_string();
  int run_script(std::vector<std::string> const &args, std::string *result = nullptr);
  void set_out_prefix(std::string const &p);

  // positions / forces model (pure functions of the absolute step)
  cvm::rvector pos_at(int atom_id, long step) const;
  cvm::rvector fsys_at(int atom_id, long step) const;
  std::function<void(long step, std::vector<cvm::rvector> &pos)> pos_override;  // post-process positions (by atom id)
  std::function<void(long step, std::vector<cvm::rvector> &f)> fsys_override;   // post-process system forces (by atom id)
  std::vector<cvm::rvector> last_pos, last_fsys, last_fcv, last_delivered;       // by atom id
  bool last_delivered_valid = false;

  // ---- colvarproxy virtuals ----
  int setup() override;
  void request_total_force(bool yesno) override;
  bool total_forces_enabled() const override;
  bool total_forces_same_step() const override;
  void log(std::string const &message) override;
  void error(std::string const &message) override;
  int set_unit_system(std::string const &units_in, bool check_only) override;
  int init_atom(int atom_number) override;
  int check_atom_id(int atom_number) override;
  cvm::real rand_gaussian() override;
  void add_energy(cvm::real e) override;
  int run_force_callback() override;
  int smp_num_threads() override;
  // replicas
  int check_replicas_enabled() override;
  int replica_index() override;
  int num_replicas() override;
  void replica_comm_barrier() override;
  int replica_comm_recv(char *msg_data, int buf_len, int src_rep) override;
  int replica_comm_send(char *msg_data, int msg_len, int dest_rep) override;

  // closed-loop state
  std::vector<cvm::rvector> cl_pos, cl_vel;
  TrajModel model;

  bool dead = false;   // killed: instance abandoned at next step boundary
  bool halt_on_error = false;   // a real engine aborts the job when Colvars raises an error
  bool halted = false;
  std::string halt_message;
  std::string last_error() const { return error_lines.empty() ? "" : error_lines.back(); }
  bool log_contains(std::string const &needle) const;

private:
  void build_model();
  void fill_inputs(long step, bool first_of_run);
  void record_step(long step, bool continuing, int err);
  std::mutex log_mu_;
};

std::string fmt_double(double v);

}  // namespace sim

// Read-only accessor into Colvars privates (guarded friend, COLVARS_VERIF)
struct colvars_verif_access {
  static int &errorCode() { return colvarmodule::errorCode; }
  static int &log_level() { return colvarmodule::log_level_; }
  static std::vector<colvar *> &colvars(colvarmodule *m) { return m->colvars; }
  static std::vector<colvarbias *> &biases(colvarmodule *m) { return m->biases; }
  static std::vector<std::shared_ptr<colvar::cvc>> &cvcs(colvar *c) { return c->cvcs; }
  // dependency graph
  static std::vector<colvardeps::feature_state> const &dep_states(colvardeps *o) { return o->feature_states; }
  static std::vector<colvardeps *> const &dep_children(colvardeps *o) { return o->children; }
  static std::vector<colvardeps *> const &dep_parents(colvardeps *o) { return o->parents; }
  // OPES (kernels held, number of kernels counted so far)
  static std::vector<colvarbias_opes::kernel> const &opes_kernels(colvarbias_opes *b) { return b->m_kernels; }
  static unsigned long long opes_counter(colvarbias_opes *b) { return b->m_counter; }
  // metadynamics (multiple-walker mirrors, grids, pending hills)
  static std::vector<colvarbias_meta *> &meta_replicas(colvarbias_meta *b) { return b->replicas; }
  static colvar_grid_scalar *meta_energy_grid(colvarbias_meta *b) { return b->hills_energy.get(); }
  static std::list<colvarbias_meta::hill> &meta_hills(colvarbias_meta *b) { return b->hills; }
  static std::list<colvarbias_meta::hill>::iterator meta_new_hills_begin(colvarbias_meta *b) { return b->new_hills_begin; }
  static std::string const &meta_replica_id(colvarbias_meta *b) { return b->replica_id; }
  static long meta_state_step(colvarbias_meta *b) { return (long)b->state_file_step; }
  // ABF accumulators and per-bias forces (C04)
  static colvar_grid_count *abf_samples(colvarbias_abf *b) { return b->samples.get(); }
  static colvar_grid_gradient *abf_gradients(colvarbias_abf *b) { return b->gradients.get(); }
  static std::vector<colvarvalue> const &bias_forces(colvarbias *b) { return b->colvar_forces; }
  // PMF integration (C16)
  static integrate_potential *abf_pmf(colvarbias_abf *b) { return b->pmf.get(); }
  static std::vector<cvm::real> &pot_divergence(integrate_potential *p) { return p->divergence; }
  static colvar_grid_gradient *abf_czar_gradients(colvarbias_abf *b) { return b->czar_gradients.get(); }
  static integrate_potential *abf_czar_pmf(colvarbias_abf *b) { return b->czar_pmf.get(); }
  // extended-Lagrangian coordinate (C17)
  static double ext_x(colvar *c) { return c->x_ext.real_value; }
  static double ext_v(colvar *c) { return c->v_ext.real_value; }
  static double ext_mass(colvar *c) { return c->ext_mass; }
  static double ext_k(colvar *c) { return c->ext_force_k; }
  static double ext_ek(colvar *c) { return c->kinetic_energy; }
  static double ext_ep(colvar *c) { return c->potential_energy; }
  static double atoms_force(colvar *c) { return c->f.real_value; }   // what communicate_forces() multiplies the gradients by
};
