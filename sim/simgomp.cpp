// simgomp: the 12 libgomp entry points referenced by the Colvars objects,
// implemented over the deterministic scheduler.  Compiled without sanitizers;
// in the TSan flavour lock acquire/release are announced to TSan explicitly.
#include "baton.h"
#include "simgomp.h"

#include <cstdio>
#include <cstdlib>
#include <vector>

extern "C" {
void __tsan_acquire(void *addr) __attribute__((weak));
void __tsan_release(void *addr) __attribute__((weak));
}

namespace sim {

namespace {
struct Team {
  int n = 1;
  int arrived = 0;
  long gen = 0;
  long single_count = 0;
};
struct Member {
  Team *team; int tid; void (*fn)(void *); void *data; long single_count = 0;
};
thread_local Member *t_member = nullptr;
int g_threads = 1;
GompStats g_gstats;
int g_critical = 0;

void member_main(void *p) {
  Member *m = (Member *)p;
  t_member = m;
  m->fn(m->data);
  t_member = nullptr;
}

struct LockWait { int *w; };
bool lock_free(void *p) { return *((LockWait *)p)->w == 0; }

void lock_acquire(int *w, int kind) {
  sched_yield(kind, 0);
  if (*w != 0) {
    g_gstats.lock_contended++;
    LockWait lw{w};
    sched_wait(lock_free, &lw, kind, 1);
  }
  *w = 1 + sched_current();
  g_gstats.lock_acquired++;
  if (__tsan_acquire) __tsan_acquire(w);
}
void lock_release(int *w, int kind) {
  if (__tsan_release) __tsan_release(w);
  *w = 0;
  sched_yield(kind, 2);
}

struct BarWait { Team *t; long gen; };
bool bar_passed(void *p) { BarWait *b = (BarWait *)p; return b->t->gen != b->gen; }
}  // namespace

void gomp_set_threads(int n) { g_threads = n < 1 ? 1 : n; }
int gomp_get_threads() { return g_threads; }
GompStats &gomp_stats() { return g_gstats; }

}  // namespace sim

using namespace sim;

extern "C" {

void GOMP_parallel(void (*fn)(void *), void *data, unsigned num_threads, unsigned /*flags*/) {
  int n = num_threads ? (int)num_threads : g_threads;
  if (t_member || n <= 1) {
    // nested or serial: team of one on the calling thread
    Team team; team.n = 1;
    Member me{&team, 0, fn, data};
    Member *saved = t_member;
    t_member = &me;
    fn(data);
    t_member = saved;
    g_gstats.regions_serial++;
    return;
  }
  g_gstats.regions_parallel++;
  Team team; team.n = n;
  std::vector<Member> mem((size_t)n);
  std::vector<int> ids;
  for (int k = 0; k < n; k++) mem[(size_t)k] = Member{&team, k, fn, data};
  int group = sched_current_group();
  for (int k = 1; k < n; k++) ids.push_back(sched_spawn(member_main, &mem[(size_t)k], group));
  t_member = &mem[0];
  sched_yield(Y_GOMP, (uint64_t)n);
  fn(data);
  t_member = nullptr;
  for (int id : ids) sched_join(id);
}

void GOMP_barrier(void) {
  Member *m = t_member;
  if (!m || m->team->n <= 1) return;
  Team *t = m->team;
  g_gstats.barriers++;
  t->arrived++;
  if (t->arrived == t->n) { t->arrived = 0; t->gen++; sched_yield(Y_BARRIER, 1); return; }
  BarWait bw{t, t->gen};
  sched_wait(bar_passed, &bw, Y_BARRIER, 0);
}

bool GOMP_single_start(void) {
  Member *m = t_member;
  if (!m) return true;
  sched_yield(Y_GOMP, 77);
  long mine = m->single_count++;
  if (m->team->single_count == mine) { m->team->single_count = mine + 1; g_gstats.singles++; return true; }
  return false;
}

void GOMP_critical_start(void) { lock_acquire(&g_critical, Y_LOCK); }
void GOMP_critical_end(void) { lock_release(&g_critical, Y_LOCK); }

int omp_get_thread_num(void) { return t_member ? t_member->tid : 0; }
int omp_get_num_threads(void) { return t_member ? t_member->team->n : 1; }
int omp_get_max_threads(void) { return g_threads; }
int omp_in_parallel(void) { return t_member && t_member->team->n > 1; }

void omp_init_lock(void *l) { *(int *)l = 0; }
void omp_destroy_lock(void *) {}
void omp_set_lock(void *l) { lock_acquire((int *)l, Y_LOCK); }
void omp_unset_lock(void *l) { lock_release((int *)l, Y_LOCK); }
int omp_test_lock(void *l) {
  int *w = (int *)l;
  sched_yield(Y_LOCK, 3);
  if (*w != 0) return 0;
  *w = 1 + sched_current();
  if (__tsan_acquire) __tsan_acquire(w);
  return 1;
}

}  // extern "C"
