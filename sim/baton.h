// Deterministic scheduler: tasks are real threads, exactly one runs at a time.
// The hand-off is a raw futex and this translation unit is compiled WITHOUT
// sanitizers, so that ThreadSanitizer sees no synchronisation through it: the
// threads are fully serialised and replayable, yet TSan still reasons about the
// program's own happens-before relation (C12 race oracle).
#pragma once
#include <cstdint>
#include <cstddef>

namespace sim {

typedef void (*task_fn)(void *);
typedef bool (*pred_fn)(void *);
typedef void (*switch_hook_fn)(int from_group, int to_group);

enum YieldKind : int {
  Y_STEP = 1, Y_FILE = 2, Y_NET = 3, Y_GOMP = 4, Y_LOCK = 5, Y_BARRIER = 6, Y_ITEM = 7, Y_END = 8, Y_SPAWN = 9, Y_OP = 10
};

struct SchedStats {
  uint64_t yields = 0;        // yield points reached with >1 live task
  uint64_t switches = 0;      // yields at which another task was chosen
  uint64_t group_switches = 0;
  uint64_t blocked_waits = 0; // waits that actually blocked
  uint64_t choices_used = 0;
  uint64_t spawned = 0;
  uint64_t fingerprint = 0;   // FNV over (seq, task, kind, detail)
  bool deadlock = false;
  bool budget_exceeded = false;
};

// Start a new run.  The calling thread becomes task 0 (group 0).
void sched_reset(const int *choices, size_t n_choices, uint64_t yield_budget);
void sched_set_switch_hook(switch_hook_fn h);
// Create a task in the given group; it is runnable but does not run until chosen.
int  sched_spawn(task_fn fn, void *arg, int group);
// Offer a switch.
void sched_yield(int kind, uint64_t detail);
// Block until pred(arg) is true (evaluated by the scheduler, deterministically).
// Returns false if the run deadlocked (then every wait returns false at once).
bool sched_wait(pred_fn pred, void *arg, int kind, uint64_t detail);
// Block until task id has finished, then reap its thread.
void sched_join(int id);
int  sched_current();        // task id
int  sched_current_group();
int  sched_live_tasks();
void sched_note(int kind, uint64_t detail);  // add to the history fingerprint without yielding
SchedStats const &sched_stats();

}  // namespace sim
