#include "harness.h"
int main(int argc, char **argv) { return sim::harness_main(argc, argv); }
