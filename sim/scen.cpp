#include "scen.h"
#include "geom.h"

#include <algorithm>
#include <cmath>
#include <cstdio>
#include <cstdlib>
#include <sstream>

namespace sim {

std::string num(double v) {
  char b[48];
  snprintf(b, sizeof b, "%.12g", v);
  return b;
}

int CvSpec::ngroups() const {
  if (kind == "angle") return 3;
  if (kind == "dihedral" || kind == "combo") return 4;
  if (kind == "gyration" || kind == "rmsd" || kind == "eigenvector" || kind == "orientation" || kind == "selfCoordNum" ||
      kind == "orientationAngle" || kind == "inertia" || kind == "spinAngle" || kind == "tilt")
    return 1;
  return 2;
}

double CvSpec::eval(TrajModel const &m, long step) const {
  const double r2d = 180.0 / 3.14159265358979323846;
  if (kind == "distance") return (m.com(groups[1], step) - m.com(groups[0], step)).norm();
  if (kind == "combo") return coeff0 * (m.com(groups[1], step) - m.com(groups[0], step)).norm() + coeff1 * (m.com(groups[3], step) - m.com(groups[2], step)).norm();
  if (kind == "distanceZ") return (m.com(groups[0], step) - m.com(groups[1], step)).z;
  if (kind == "distanceXY") { V3 d = m.com(groups[0], step) - m.com(groups[1], step); return std::sqrt(d.x * d.x + d.y * d.y); }
  if (kind == "angle") {
    V3 a = m.com(groups[0], step) - m.com(groups[1], step), b = m.com(groups[2], step) - m.com(groups[1], step);
    double c = a.dot(b) / (a.norm() * b.norm());
    c = std::max(-1.0, std::min(1.0, c));
    return r2d * std::acos(c);
  }
  if (kind == "dihedral") {
    V3 r12 = m.com(groups[1], step) - m.com(groups[0], step), r23 = m.com(groups[2], step) - m.com(groups[1], step),
       r34 = m.com(groups[3], step) - m.com(groups[2], step);
    V3 n1 = r12.cross(r23), n2 = r23.cross(r34);
    double c = n1.dot(n2), s = n1.dot(r34) * r23.norm();
    return r2d * std::atan2(s, c);
  }
  if (kind == "gyration" || kind == "rmsd" || kind == "eigenvector") {
    std::vector<V3> p; for (int a : groups[0]) p.push_back(m.pos(a, step));
    if (kind == "gyration") return radius_of_gyration(p);
    if (ref.size() != p.size()) return 0;
    if (kind == "rmsd") return min_rmsd(p, ref);
    std::vector<V3> xs = superpose(p, ref), e = centred_vec();
    double v = 0; for (size_t i = 0; i < p.size(); i++) v += (xs[i] - ref[i]).dot(e[i]);
    return v;
  }
  return 0;
}

std::vector<V3> CvSpec::centred_vec() const {
  std::vector<V3> e = vec; if (e.empty()) return e;
  V3 c = centroid(e); double n2 = 0;
  for (auto &v : e) v = v - c;
  if (difference && ref.size() == e.size()) {
    // the documented construction: both sets centred, the vector set rotated onto the reference, difference taken,
    // then scaled so that the projection of (x_vec - x_ref) is 1 (unless normalizeVector asks for |v| = 1)
    V3 cr = centroid(ref); std::vector<V3> rc(ref.size());
    for (size_t i = 0; i < ref.size(); i++) rc[i] = ref[i] - cr;
    M3 R; optimal_rotation(e, rc, R);
    for (size_t i = 0; i < e.size(); i++) e[i] = R.apply(e[i]) - rc[i];
    for (auto const &v : e) n2 += v.dot(v);
    if (n2 > 0) for (auto &v : e) v = v * (normalize ? 1.0 / std::sqrt(n2) : 1.0 / n2);
    return e;
  }
  for (auto const &v : e) n2 += v.dot(v);
  if (normalize && n2 > 0) for (auto &v : e) v = v * (1.0 / std::sqrt(n2));
  return e;
}

static std::string v3_list(std::vector<V3> const &l) {
  std::string s;
  for (auto const &v : l) s += " (" + num(v.x) + ", " + num(v.y) + ", " + num(v.z) + ")";
  return s;
}

static std::string group_block(std::string const &gname, std::vector<int> const &ids) {
  std::string s = "    " + gname + " { atomNumbers";
  for (int id : ids) s += " " + std::to_string(id + 1);
  s += " }\n";
  return s;
}

std::string CvSpec::config() const {
  std::string s = "colvar {\n  name " + name + "\n";
  if (width > 0) s += "  width " + num(width) + "\n";
  if (has_bounds) s += "  lowerBoundary " + num(lower) + "\n  upperBoundary " + num(upper) + "\n";
  if (expand) s += "  expandBoundaries on\n";
  s += extra;
  if (kind == "combo") {
    // two distance components with coefficients
    for (int c = 0; c < 2; c++)
      s += "  distance {\n    name c" + std::to_string(c) + "\n    componentCoeff " + num(c ? coeff1 : coeff0) + "\n" + group_block("group1", groups[(size_t)(2 * c)]) + group_block("group2", groups[(size_t)(2 * c + 1)]) + "  }\n";
    return s + "}\n";
  }
  s += "  " + kind + " {\n";
  s += comp_extra;
  if (kind == "distanceZ" || kind == "distanceXY") {
    s += group_block("main", groups[0]) + group_block("ref", groups[1]);
  } else if (ngroups() == 1) {
    s += group_block("atoms", groups[0]);
    if (!ref.empty()) s += "    refPositions" + v3_list(ref) + "\n";
    if (!vec.empty()) s += "    vector" + v3_list(vec) + "\n" + (normalize ? "    normalizeVector on\n" : "") + (difference ? "    differenceVector on\n" : "");
  } else {
    for (size_t g = 0; g < groups.size(); g++) s += group_block("group" + std::to_string(g + 1), groups[g]);
  }
  s += "  }\n}\n";
  return s;
}

std::vector<std::vector<int>> pick_groups(Rng &r, int natoms, int ngroups, int max_size) {
  std::vector<int> ids((size_t)natoms);
  for (int i = 0; i < natoms; i++) ids[(size_t)i] = i;
  for (int i = natoms - 1; i > 0; i--) std::swap(ids[(size_t)i], ids[r.below((uint64_t)i + 1)]);
  std::vector<std::vector<int>> g((size_t)ngroups);
  size_t pos = 0;
  int budget = natoms;
  for (int k = 0; k < ngroups; k++) {
    int remaining_groups = ngroups - k - 1;
    int maxs = std::max(1, std::min(max_size, budget - remaining_groups));
    int sz = (int)r.range(1, maxs);
    for (int j = 0; j < sz; j++) g[(size_t)k].push_back(ids[pos++]);
    std::sort(g[(size_t)k].begin(), g[(size_t)k].end());
    budget -= sz;
  }
  return g;
}

CvSpec make_cv(Rng &r, int natoms, std::string const &kind, std::string const &name) {
  CvSpec cv;
  cv.kind = kind; cv.name = name;
  cv.groups = pick_groups(r, natoms, cv.ngroups(), 3);
  if (kind == "dihedral") { cv.width = 15.0; }
  else if (kind == "angle") { cv.width = 5.0; }
  else cv.width = 0.25;
  return cv;
}

void cv_range(CvSpec const &cv, TrajModel const &m, long T, double &lo, double &hi) {
  lo = 1e300; hi = -1e300;
  for (long s = 0; s <= T; s++) { double v = cv.eval(m, s); lo = std::min(lo, v); hi = std::max(hi, v); }
}

void place_grid(CvSpec &cv, TrajModel const &m, long T, Rng &r, int nbins, double cover) {
  if (cv.kind == "dihedral") {
    // periodic: full circle
    cv.width = 360.0 / nbins; cv.lower = -180.0; cv.upper = 180.0; cv.has_bounds = true;
    return;
  }
  double lo, hi;
  cv_range(cv, m, T, lo, hi);
  double range = std::max(hi - lo, 1e-3);
  double span = range * cover;
  double w = span / nbins;
  // round the width to 3 significant digits so that the text is exact
  double mag = std::pow(10.0, std::floor(std::log10(w)) - 2);
  w = std::max(mag, std::round(w / mag) * mag);
  double centre = 0.5 * (lo + hi) + r.uniform(-0.15, 0.15) * range * (cover < 1 ? 1.0 : 0.3);
  double lower = centre - 0.5 * w * nbins;
  lower = std::floor(lower / w) * w;
  if ((cv.kind == "distance" || cv.kind == "distanceXY" || cv.kind == "angle" || cv.kind == "gyration" || cv.kind == "rmsd") && lower < 0) lower = 0;
  cv.width = w; cv.lower = lower; cv.upper = lower + w * nbins; cv.has_bounds = true;
  if (cv.kind == "angle" && cv.upper > 180.0) { cv.upper = 180.0; cv.lower = 180.0 - w * nbins; if (cv.lower < 0) { cv.lower = 0; cv.width = 180.0 / nbins; } }
}

std::string global_config(int traj_freq, int restart_freq, bool smp, std::string const &extra) {
  std::string s;
  s += "colvarsTrajFrequency " + std::to_string(traj_freq) + "\n";
  s += "colvarsRestartFrequency " + std::to_string(restart_freq) + "\n";
  s += std::string("smp ") + (smp ? "on" : "off") + "\n";
  s += extra;
  return s;
}

std::string join_names(std::vector<CvSpec> const &cvs) {
  std::string s;
  for (auto &c : cvs) s += (s.empty() ? "" : " ") + c.name;
  return s;
}

static bool parse_full_double(std::string const &t, double &v) {
  if (t.empty()) return false;
  char *e = nullptr;
  v = strtod(t.c_str(), &e);
  return e && *e == 0;
}

StateDiff compare_state_text(std::string const &a, std::string const &b, double rtol, double atol) {
  StateDiff d;
  std::istringstream ia(a), ib(b);
  std::string ta, tb, prev;
  size_t idx = 0;
  for (;;) {
    bool ga = (bool)(ia >> ta), gb = (bool)(ib >> tb);
    if (!ga && !gb) break;
    if (ga != gb) { d.same = false; d.index = idx; d.a = ga ? ta : "<end>"; d.b = gb ? tb : "<end>"; d.context = prev; return d; }
    if (ta != tb) {
      double va, vb;
      bool ok = false;
      if (parse_full_double(ta, va) && parse_full_double(tb, vb)) {
        if (std::isnan(va) && std::isnan(vb)) ok = true;
        else ok = std::fabs(va - vb) <= atol + rtol * std::max(std::fabs(va), std::fabs(vb));
      }
      if (!ok) { d.same = false; d.index = idx; d.a = ta; d.b = tb; d.context = prev; return d; }
    }
    double dummy;
    if (!parse_full_double(ta, dummy)) prev = ta;
    idx++;
  }
  return d;
}

}  // namespace sim

namespace sim {

static const char *const k_templates[] = {
  "harm_fixed", "harm_cmove", "harm_cstage", "harm_kmove", "harm_kstage", "harm_lambda",
  "walls_fixed", "walls_kmove", "walls_decouple", "linear_fixed", "linear_kmove",
  "abmd", "alb", "abf", "abf_czar_off", "meta_grid", "meta_nogrid", "meta_keep", "meta_wt", "meta_gupd",
  "opes", "histogram", "harm_ti"
};

std::vector<std::string> const &bias_templates() {
  static std::vector<std::string> v;
  if (v.empty()) for (auto t : k_templates) v.push_back(t);
  return v;
}

int bias_template_max_cv(std::string const &t) {
  if (t == "abmd") return 1;
  if (t == "abf" || t == "abf_czar_off" || t.compare(0, 4, "meta") == 0 || t == "histogram" || t == "opes") return 2;
  return 2;
}
bool bias_template_needs_grid(std::string const &t) {
  return t == "abf" || t == "abf_czar_off" || t == "meta_grid" || t == "meta_keep" || t == "meta_wt" || t == "meta_gupd" || t == "histogram" || t == "harm_ti";
}
bool bias_template_needs_total_force(std::string const &t) { return t == "abf" || t == "abf_czar_off" || t == "harm_ti"; }

static std::string list(std::vector<double> const &v) {
  std::string s;
  for (double x : v) s += (s.empty() ? "" : " ") + num(x);
  return s;
}
static double round3(double v) {
  if (v == 0) return 0;
  double mag = std::pow(10.0, std::floor(std::log10(std::fabs(v))) - 2);
  return std::round(v / mag) * mag;
}

BiasSpec make_bias(std::string const &t, Rng &r, std::vector<CvSpec> const &cvs,
                   std::vector<std::pair<double, double>> const &ranges, long T, std::string const &name) {
  BiasSpec b;
  b.tmpl = t; b.name = name;
  b.grid = bias_template_needs_grid(t);
  b.total_force = bias_template_needs_total_force(t);
  size_t n = cvs.size();
  std::vector<double> mid(n), span(n), c0(n), c1(n), kscaled(n);
  for (size_t i = 0; i < n; i++) {
    mid[i] = 0.5 * (ranges[i].first + ranges[i].second);
    span[i] = std::max(1e-3, ranges[i].second - ranges[i].first);
    c0[i] = round3(mid[i] + r.uniform(-0.4, 0.4) * span[i]);
    c1[i] = round3(mid[i] + r.uniform(-0.8, 0.8) * span[i]);
  }
  std::string head = " {\n  name " + name + "\n  colvars " + join_names(cvs) + "\n";
  std::string s;
  long nsteps = std::max(2L, (long)r.range(3, std::max(4L, T)));
  int nstages = (int)r.range(2, 5);
  double k = round3(r.uniform(0.5, 20.0));
  double k1 = round3(r.uniform(0.0, 30.0));
  auto out_flags = [&](bool centers, bool work) {
    std::string f = "  outputEnergy on\n";
    if (centers) f += "  outputCenters on\n";
    if (work) f += "  outputAccumulatedWork on\n";
    return f;
  };
  if (t == "harm_fixed") {
    s = "harmonic" + head + "  centers " + list(c0) + "\n  forceConstant " + num(k) + "\n" + out_flags(false, false);
  } else if (t == "harm_ti") {
    s = "harmonic" + head + "  centers " + list(c0) + "\n  forceConstant " + num(k) + "\n  writeTIPMF on\n  writeTISamples on\n" + out_flags(false, false);
  } else if (t == "harm_cmove") {
    s = "harmonic" + head + "  centers " + list(c0) + "\n  targetCenters " + list(c1) + "\n  forceConstant " + num(k) +
        "\n  targetNumSteps " + std::to_string(nsteps) + "\n" + out_flags(true, true);
    b.history = true;
  } else if (t == "harm_cstage") {
    s = "harmonic" + head + "  centers " + list(c0) + "\n  targetCenters " + list(c1) + "\n  forceConstant " + num(k) +
        "\n  targetNumSteps " + std::to_string(std::max(2L, nsteps / nstages)) + "\n  targetNumStages " + std::to_string(nstages) + "\n" + out_flags(true, false);
    b.history = true;
  } else if (t == "harm_kmove") {
    s = "harmonic" + head + "  centers " + list(c0) + "\n  forceConstant " + num(k) + "\n  targetForceConstant " + num(k1) +
        "\n  targetNumSteps " + std::to_string(nsteps) + "\n";
    if (r.chance(0.5)) s += "  lambdaExponent " + num((double)r.range(1, 4)) + "\n";
    s += out_flags(false, true);
    b.history = true;
  } else if (t == "harm_kstage") {
    long per = std::max(3L, nsteps / nstages);
    s = "harmonic" + head + "  centers " + list(c0) + "\n  forceConstant " + num(k) + "\n  targetForceConstant " + num(k1) +
        "\n  targetNumSteps " + std::to_string(per) + "\n  targetNumStages " + std::to_string(nstages) +
        "\n  targetEquilSteps " + std::to_string(r.range(0, per - 1)) + "\n" + out_flags(false, false);
    b.history = true;
  } else if (t == "harm_lambda") {
    int m = (int)r.range(3, 6);
    std::vector<double> ls;
    for (int i = 0; i < m; i++) ls.push_back(round3(r.uniform(0.0, 1.0)));
    std::sort(ls.begin(), ls.end());
    long per = std::max(3L, nsteps / m);
    s = "harmonic" + head + "  centers " + list(c0) + "\n  forceConstant " + num(k) + "\n  targetForceConstant " + num(k1) +
        "\n  targetNumSteps " + std::to_string(per) + "\n  lambdaSchedule " + list(ls) + "\n  targetEquilSteps " + std::to_string(r.range(0, per - 1)) + "\n" + out_flags(false, false);
    b.history = true;
  } else if (t == "walls_fixed" || t == "walls_kmove" || t == "walls_decouple") {
    std::vector<double> lw(n), uw(n);
    for (size_t i = 0; i < n; i++) { lw[i] = round3(mid[i] - r.uniform(0.05, 0.45) * span[i]); uw[i] = round3(mid[i] + r.uniform(0.05, 0.45) * span[i]); if (uw[i] <= lw[i]) uw[i] = lw[i] + 0.1 * span[i]; }
    int which = (int)r.range(0, 2);   // both / upper / lower
    s = "harmonicWalls" + head;
    if (which != 1) s += "  lowerWalls " + list(lw) + "\n";
    if (which != 2) s += "  upperWalls " + list(uw) + "\n";
    if (which == 0 && r.chance(0.5)) s += "  lowerWallConstant " + num(k) + "\n  upperWallConstant " + num(round3(k * r.uniform(0.3, 3))) + "\n";
    else s += "  forceConstant " + num(k) + "\n";
    if (t == "walls_kmove") { s += "  targetForceConstant " + num(k1) + "\n  targetNumSteps " + std::to_string(nsteps) + "\n  outputAccumulatedWork on\n"; b.history = true; }
    if (t == "walls_decouple") { s += "  decoupling on\n  lambdaExponent " + num((double)r.range(1, 4)) + "\n  targetNumStages " + std::to_string(nstages) + "\n  targetNumSteps " + std::to_string(std::max(3L, nsteps / nstages)) + "\n"; b.history = true; }
    s += "  outputEnergy on\n";
  } else if (t == "linear_fixed" || t == "linear_kmove") {
    s = "linear" + head + "  centers " + list(c0) + "\n  forceConstant " + num(round3(r.uniform(-2, 2))) + "\n";
    if (t == "linear_kmove") { s += "  targetForceConstant " + num(round3(r.uniform(-3, 3))) + "\n  targetNumSteps " + std::to_string(nsteps) + "\n  outputAccumulatedWork on\n"; b.history = true; }
    s += "  outputEnergy on\n";
  } else if (t == "abmd") {
    bool dec = r.chance(0.5);
    double stop = dec ? ranges[0].first - 0.1 * span[0] : ranges[0].second + 0.1 * span[0];
    if (r.chance(0.4)) stop = round3(mid[0] + (dec ? -0.2 : 0.2) * span[0]);
    s = "abmd" + head + "  forceConstant " + num(k) + "\n  stoppingValue " + num(round3(stop)) + "\n";
    if (dec) s += "  decreasing on\n";
    b.history = true;
  } else if (t == "alb") {
    s = "ALB" + head + "  centers " + list(c0) + "\n  UpdateFrequency " + std::to_string(r.range(4, 14)) + "\n";
    if (r.chance(0.5)) { std::vector<double> fr(n); for (auto &x : fr) x = round3(r.uniform(0.5, 5)); s += "  forceRange " + list(fr) + "\n"; }
    s += "  outputCenters on\n";
    b.history = true;
  } else if (t == "abf" || t == "abf_czar_off") {
    s = "abf" + head + "  fullSamples " + std::to_string(r.range(2, 12)) + "\n";
    if (r.chance(0.4)) s += "  minSamples " + std::to_string(r.range(0, 2)) + "\n";
    if (r.chance(0.3)) s += "  maxForce " + list(std::vector<double>(n, round3(r.uniform(0.5, 5)))) + "\n";
    if (r.chance(0.3)) s += "  hideJacobian on\n";
    if (r.chance(0.3)) s += "  historyFreq " + std::to_string(r.range(1, 4) * 5) + "\n  outputFreq 5\n";
    b.history = true;
  } else if (t.compare(0, 4, "meta") == 0) {
    s = "metadynamics" + head + "  hillWeight " + num(round3(r.uniform(0.05, 1.0))) + "\n  newHillFrequency " + std::to_string(r.range(1, 9)) + "\n";
    if (r.chance(0.5)) s += "  hillWidth " + num(round3(r.uniform(0.8, 3.0))) + "\n";
    else { std::vector<double> sg(n); for (size_t i = 0; i < n; i++) sg[i] = round3(cvs[i].width * r.uniform(0.5, 2.0)); s += "  gaussianSigmas " + list(sg) + "\n"; }
    if (t == "meta_nogrid") s += "  useGrids off\n";
    if (t == "meta_keep") { s += "  keepHills on\n"; if (r.chance(0.5)) s += "  rebinGrids on\n"; }
    else if (t != "meta_nogrid" && r.chance(0.25)) s += "  rebinGrids on\n";   // a no-op when the grid definition is unchanged
    if (t == "meta_wt") s += "  wellTempered on\n  biasTemperature " + num(round3(r.uniform(300, 3000))) + "\n";
    if (t == "meta_gupd") s += "  gridsUpdateFrequency " + std::to_string(r.range(2, 20)) + "\n";
    if (r.chance(0.3)) s += "  writeHillsTrajectory on\n";
    if (r.chance(0.3)) s += "  writeTIPMF on\n";
    b.history = true;
  } else if (t == "opes") {
    std::vector<double> sg(n);
    for (size_t i = 0; i < n; i++) sg[i] = round3(std::max(cvs[i].width, span[i] * 0.08) * r.uniform(0.5, 1.5));
    s = "opes_metad" + head + "  newHillFrequency " + std::to_string(r.range(1, 8)) + "\n  barrier " + num(round3(r.uniform(2, 12))) +
        "\n  gaussianSigma " + list(sg) + "\n";
    if (r.chance(0.3)) s += "  neighborList on\n";
    if (r.chance(0.3)) s += "  calcWork on\n";
    if (r.chance(0.3)) s += "  noZed on\n";
    if (r.chance(0.3)) s += "  compressionThreshold 0\n";
    b.history = true;
  } else if (t == "histogram") {
    s = "histogram" + head;
    b.history = true;
  }
  if (r.chance(0.03) && t != "histogram") s += "  timeStepFactor " + std::to_string(r.range(2, 3)) + "\n";
  s += "}\n";
  b.config = s;
  return b;
}

}  // namespace sim
