#include "walkers.h"

#include <cstdlib>
#include <sstream>

namespace sim {

namespace {

std::vector<FsFault> faults_of(J const &op) {
  std::vector<FsFault> v;
  for (auto const &f : op.at("faults").a) {
    FsFault x;
    std::string k = f.at("k").as_str();
    x.kind = -1;
    for (int q = 0; q < FF_NKINDS; q++) if (k == fs_fault_names[q]) x.kind = q;
    if (x.kind < 0) continue;
    x.call = -1;
    std::string c = f.at("call").as_str();
    for (int q = 0; q < FS_NKINDS; q++) if (c == fs_kind_names[q]) x.call = q;
    x.suffix = f.at("suffix").as_str();
    x.nth = (int)f.at("nth").as_int();
    x.arg = (long)f.at("arg").as_int(1);
    v.push_back(x);
  }
  return v;
}

void new_instance(Walker &W, bool load) {
  if (W.e) {
    // the old instance is abandoned (a killed process frees nothing): detach the module statics from it
    W.abandoned.push_back(W.e);
    ModuleStatics().load();
  }
  W.e = new Engine(W.ec);
  W.e->halt_on_error = true;
  if (W.e->configure(W.config) != COLVARS_OK || cvm::get_error()) {
    W.fail = "configuration rejected: " + W.e->last_error();
    return;
  }
  if (load) {
    std::string prefix = W.ec.out_prefix.empty() ? "/simfs/w" + std::to_string(W.w) + "/out" : W.ec.out_prefix;
    if (!W.ec.restart_prefix.empty() && fs().exists(W.ec.restart_prefix + ".colvars.state") && !fs().exists(prefix + ".colvars.state")) prefix = W.ec.restart_prefix;
    if (fs().exists(prefix + ".colvars.state")) {
      cvm::clear_error();
      if (W.e->load_state(prefix) != COLVARS_OK || cvm::get_error()) {
        W.fail = "state load failed:";
        if (getenv("CVSIM_DEBUG")) { std::string st; fs().get(prefix + ".colvars.state", st); fprintf(stderr, "---- state of walker %d ----\n%s\n----\n", W.w, st.c_str()); }
        for (auto const &l : W.e->error_lines) W.fail += " | " + l;
      }
    }
  }
  if (W.on_new_instance) W.on_new_instance(W);
}

void walker_main(void *p) {
  Walker &W = *(Walker *)p;
  new_instance(W, false);
  for (auto const &op : W.ops) {
    if (!W.fail.empty()) break;
    std::string k = op.at("op").as_str();
    if (k == "run") {
      long n = (long)op.at("n").as_int(1);
      std::string end = op.at("end").as_str("graceful");
      std::vector<FsFault> fl = faults_of(op);
      if (!fl.empty()) fs().arm_faults(W.w, fl);
      Walker *wp = &W;
      W.e->after_step = [wp](long step) { if (wp->after_step) wp->after_step(*wp, step); };
      W.e->before_step = [wp](long step) { if (wp->before_step) wp->before_step(*wp, step); };
      W.e->run((int)n, end == "graceful");
      W.e->after_step = nullptr;
      W.e->before_step = nullptr;
      if (!fl.empty()) fs().disarm_faults(W.w);
      if (fs().is_dead(W.w)) W.kills++;
      if (W.e->halted && !fs().is_dead(W.w)) { W.halts++; W.last_halt = W.e->halt_message; }   // a dead walker's errors are artefacts
    } else if (k == "resume") {
      fs().set_dead(W.w, false);
      W.resumes++;
      new_instance(W, true);
    }
    if (W.after_op) W.after_op(W, op);
    sched_yield(Y_OP, (uint64_t)W.w);
  }
  W.finished = true;
}

}  // namespace

void run_walkers(std::vector<Walker> &ws) {
  std::vector<int> ids;
  for (auto &w : ws) ids.push_back(sched_spawn(walker_main, &w, w.w));
  for (int id : ids) sched_join(id);
}

bool state_array(std::string const &state, std::string const &bias_name, std::string const &key, std::vector<double> &out) {
  out.clear();
  // find "name <bias_name>" then the key after it
  size_t p = state.find("name " + bias_name + "\n");
  if (p == std::string::npos) return false;
  // end of this bias block: next "\n}\n\n" at column 0
  size_t end = state.find("\n}\n", p);
  if (end == std::string::npos) end = state.size();
  size_t k = p;
  for (;;) {
    k = state.find(key, k);
    if (k == std::string::npos || k > end) return false;
    bool at_line_start = k == 0 || state[k - 1] == '\n';
    size_t after = k + key.size();
    if (at_line_start && after < state.size() && (state[after] == '\n' || state[after] == ' ')) break;
    k = after;
  }
  std::istringstream is(state.substr(k + key.size(), end - k - key.size()));
  std::string tok;
  while (is >> tok) {
    if (tok == "grid_parameters") {
      // skip "{ ... }"
      int depth = 0;
      while (is >> tok) { if (tok == "{") depth++; else if (tok == "}") { depth--; if (depth == 0) break; } }
      continue;
    }
    char *e = nullptr;
    double v = strtod(tok.c_str(), &e);
    if (!e || *e) break;
    out.push_back(v);
  }
  return true;
}

}  // namespace sim
