// Minimal JSON value: parse + dump.  Plans, replay files, evidence.
#pragma once
#include <cstdint>
#include <cstdio>
#include <cstdlib>
#include <cstring>
#include <map>
#include <string>
#include <utility>
#include <vector>
#include <cmath>

namespace sim {

struct J {
  enum T { NUL, BOOL, NUM, STR, ARR, OBJ } t = NUL;
  bool b = false;
  double n = 0;
  bool is_int = false;
  long long i = 0;
  std::string s;
  std::vector<J> a;
  std::vector<std::pair<std::string, J>> o;  // insertion ordered

  J() {}
  J(bool v) : t(BOOL), b(v) {}
  J(int v) : t(NUM), n(v), is_int(true), i(v) {}
  J(long v) : t(NUM), n((double)v), is_int(true), i(v) {}
  J(long long v) : t(NUM), n((double)v), is_int(true), i(v) {}
  J(unsigned long v) : t(NUM), n((double)v), is_int(true), i((long long)v) {}
  J(unsigned long long v) : t(NUM), n((double)v), is_int(true), i((long long)v) {}
  J(unsigned v) : t(NUM), n(v), is_int(true), i(v) {}
  J(double v) : t(NUM), n(v) {}
  J(const char *v) : t(STR), s(v) {}
  J(std::string const &v) : t(STR), s(v) {}
  static J arr() { J j; j.t = ARR; return j; }
  static J obj() { J j; j.t = OBJ; return j; }

  bool is_obj() const { return t == OBJ; }
  bool is_arr() const { return t == ARR; }
  bool has(std::string const &k) const {
    for (auto &p : o) if (p.first == k) return true;
    return false;
  }
  J &operator[](std::string const &k) {
    if (t == NUL) t = OBJ;
    for (auto &p : o) if (p.first == k) return p.second;
    o.emplace_back(k, J());
    return o.back().second;
  }
  J const &at(std::string const &k) const {
    static J nul;
    for (auto &p : o) if (p.first == k) return p.second;
    return nul;
  }
  J &push(J v) { if (t == NUL) t = ARR; a.push_back(std::move(v)); return a.back(); }
  size_t size() const { return t == ARR ? a.size() : (t == OBJ ? o.size() : 0); }
  long long as_int(long long d = 0) const { return t == NUM ? (is_int ? i : (long long)n) : (t == BOOL ? (b ? 1 : 0) : d); }
  double as_num(double d = 0) const { return t == NUM ? (is_int ? (double)i : n) : d; }
  bool as_bool(bool d = false) const { return t == BOOL ? b : (t == NUM ? as_int() != 0 : d); }
  std::string as_str(std::string const &d = "") const { return t == STR ? s : d; }
  void erase(std::string const &k) {
    for (size_t j = 0; j < o.size(); j++) if (o[j].first == k) { o.erase(o.begin() + j); return; }
  }

  static void esc(std::string &out, std::string const &s) {
    out += '"';
    for (unsigned char c : s) {
      switch (c) {
      case '"': out += "\\\""; break;
      case '\\': out += "\\\\"; break;
      case '\n': out += "\\n"; break;
      case '\r': out += "\\r"; break;
      case '\t': out += "\\t"; break;
      default:
        if (c < 0x20 || c >= 0x7f) { char b[8]; snprintf(b, sizeof b, "\\u%04x", c); out += b; }
        else out += (char)c;
      }
    }
    out += '"';
  }
  void dump(std::string &out, int ind = -1, int lvl = 0) const {
    auto nl = [&](int l) { if (ind >= 0) { out += '\n'; out.append((size_t)(ind * l), ' '); } };
    switch (t) {
    case NUL: out += "null"; break;
    case BOOL: out += b ? "true" : "false"; break;
    case NUM: {
      char buf[40];
      if (is_int) snprintf(buf, sizeof buf, "%lld", i);
      else if (!std::isfinite(n)) { snprintf(buf, sizeof buf, "\"%s\"", std::isnan(n) ? "nan" : (n > 0 ? "inf" : "-inf")); }
      else snprintf(buf, sizeof buf, "%.17g", n);
      out += buf; break;
    }
    case STR: esc(out, s); break;
    case ARR:
      out += '[';
      for (size_t k = 0; k < a.size(); k++) { if (k) out += ','; a[k].dump(out, -1, lvl + 1); }
      out += ']'; break;
    case OBJ:
      out += '{';
      for (size_t k = 0; k < o.size(); k++) {
        if (k) out += ',';
        nl(lvl + 1);
        esc(out, o[k].first); out += ':';
        o[k].second.dump(out, ind, lvl + 1);
      }
      if (!o.empty()) nl(lvl);
      out += '}'; break;
    }
  }
  std::string str(int ind = -1) const { std::string s; dump(s, ind); return s; }

  // ---- parser ----
  struct P {
    const char *p, *e; bool ok = true;
    void ws() { while (p < e && (*p == ' ' || *p == '\n' || *p == '\t' || *p == '\r')) p++; }
    J val() {
      ws();
      if (p >= e) { ok = false; return J(); }
      char c = *p;
      if (c == '{') {
        J j = J::obj(); p++; ws();
        if (p < e && *p == '}') { p++; return j; }
        while (ok) {
          ws(); J k = val(); if (k.t != STR) { ok = false; break; }
          ws(); if (p >= e || *p != ':') { ok = false; break; } p++;
          J v = val(); j.o.emplace_back(k.s, std::move(v));
          ws(); if (p < e && *p == ',') { p++; continue; }
          if (p < e && *p == '}') { p++; break; }
          ok = false;
        }
        return j;
      }
      if (c == '[') {
        J j = J::arr(); p++; ws();
        if (p < e && *p == ']') { p++; return j; }
        while (ok) {
          j.a.push_back(val());
          ws(); if (p < e && *p == ',') { p++; continue; }
          if (p < e && *p == ']') { p++; break; }
          ok = false;
        }
        return j;
      }
      if (c == '"') {
        p++; std::string s;
        while (p < e && *p != '"') {
          if (*p == '\\' && p + 1 < e) {
            p++;
            switch (*p) {
            case 'n': s += '\n'; break; case 't': s += '\t'; break; case 'r': s += '\r'; break;
            case 'b': s += '\b'; break; case 'f': s += '\f'; break;
            case 'u': { if (p + 4 < e) { char h[5] = {p[1], p[2], p[3], p[4], 0}; s += (char)strtol(h, nullptr, 16); p += 4; } break; }
            default: s += *p;
            }
            p++;
          } else s += *p++;
        }
        if (p >= e) { ok = false; return J(); }
        p++; return J(s);
      }
      if (!strncmp(p, "true", 4) && e - p >= 4) { p += 4; return J(true); }
      if (!strncmp(p, "false", 5) && e - p >= 5) { p += 5; return J(false); }
      if (!strncmp(p, "null", 4) && e - p >= 4) { p += 4; return J(); }
      {
        const char *q = p; bool isint = true;
        if (q < e && (*q == '-' || *q == '+')) q++;
        while (q < e && (isdigit((unsigned char)*q) || *q == '.' || *q == 'e' || *q == 'E' || *q == '-' || *q == '+')) {
          if (*q == '.' || *q == 'e' || *q == 'E') isint = false; q++;
        }
        if (q == p) { ok = false; return J(); }
        std::string t(p, q); p = q;
        if (isint) return J((long long)strtoll(t.c_str(), nullptr, 10));
        return J(strtod(t.c_str(), nullptr));
      }
    }
  };
  static bool parse(std::string const &txt, J &out) {
    P p{txt.data(), txt.data() + txt.size()};
    out = p.val(); p.ws();
    return p.ok;
  }
};

inline bool read_file(std::string const &path, std::string &out) {
  FILE *f = fopen(path.c_str(), "rb"); if (!f) return false;
  char buf[65536]; size_t n; out.clear();
  while ((n = fread(buf, 1, sizeof buf, f)) > 0) out.append(buf, n);
  fclose(f); return true;
}
inline bool write_file(std::string const &path, std::string const &data) {
  FILE *f = fopen(path.c_str(), "wb"); if (!f) return false;
  bool ok = fwrite(data.data(), 1, data.size(), f) == data.size();
  return fclose(f) == 0 && ok;
}

}  // namespace sim
