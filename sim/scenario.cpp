#include "scenario.h"
#include <algorithm>

namespace sim {

J Scenario::to_json() const {
  J j = J::obj();
  j["template"] = tmpl;
  J e = J::obj(); ec.to_json(e); j["engine"] = e;
  j["T"] = (long long)T;
  j["config"] = config;
  return j;
}

void scenario_from_json(J const &j, EngineCfg &ec, std::string &config, long &T) {
  ec.from_json(j.at("engine"));
  config = j.at("config").as_str();
  T = (long)j.at("T").as_int(20);
}

Scenario gen_scenario(Rng &r, ScenOpts const &o) {
  Scenario s;
  s.T = o.T;
  s.ec.natoms = (int)r.range(8, 16);
  s.ec.data_seed = r.next() >> 12;
  s.ec.noise_seed = r.next() >> 12;
  s.ec.dt = r.pick(std::vector<double>{0.5, 1.0, 2.0});
  s.ec.temperature = r.pick(std::vector<double>{0.0, 300.0, 300.0, 310.0});
  s.ec.forces_late = r.chance(0.5);
  s.ec.traj_amp = r.uniform(0.4, 1.4);
  s.ec.force_amp = r.uniform(0.5, 4.0);
  s.ec.smp = o.smp;
  TrajModel m;
  m.build(s.ec.data_seed, s.ec.natoms, s.ec.traj_amp, s.ec.force_amp, false);

  std::vector<std::string> tmpls = o.templates.empty() ? bias_templates() : o.templates;
  if (const char *dbg = getenv("CVSIM_TEMPLATES")) {   // development aid: restrict the catalogue
    tmpls.clear();
    std::string t(dbg); size_t p = 0;
    while (p <= t.size()) { size_t q = t.find(',', p); if (q == std::string::npos) q = t.size(); if (q > p) tmpls.push_back(t.substr(p, q - p)); p = q + 1; }
  }
  int nb = (int)r.range(1, o.max_biases);
  int ncv = (int)r.range(1, o.max_cvs);
  // variables
  for (int i = 0; i < ncv; i++) {
    std::string kind = r.pick(o.cv_kinds);
    static const char *names[] = {"one", "two", "three", "four"};
    CvSpec cv = make_cv(r, s.ec.natoms, kind, names[i]);
    s.cvs.push_back(cv);
  }
  // biases: choose templates and variable subsets first, so that grids are placed where needed
  std::vector<std::string> chosen;
  std::vector<bool> need_grid((size_t)ncv, false), need_tf((size_t)ncv, false);
  for (int b = 0; b < nb; b++) {
    std::string t = r.pick(tmpls);
    int maxcv = std::min(ncv, bias_template_max_cv(t));
    int k = (int)r.range(1, maxcv);
    std::vector<int> idx;
    for (int i = 0; i < ncv; i++) idx.push_back(i);
    for (int i = ncv - 1; i > 0; i--) std::swap(idx[(size_t)i], idx[r.below((uint64_t)i + 1)]);
    idx.resize((size_t)k);
    std::sort(idx.begin(), idx.end());
    chosen.push_back(t);
    s.bias_cvs.push_back(idx);
    for (int i : idx) { if (bias_template_needs_grid(t)) need_grid[(size_t)i] = true; if (bias_template_needs_total_force(t)) need_tf[(size_t)i] = true; }
  }
  for (int i = 0; i < ncv; i++) {
    CvSpec &cv = s.cvs[(size_t)i];
    double lo, hi;
    cv_range(cv, m, o.T, lo, hi);
    s.ranges.emplace_back(lo, hi);
    if (need_grid[(size_t)i]) {
      int nbins = (int)r.range(4, 14);
      double cover = r.chance(o.p_excursion) ? r.uniform(0.5, 0.9) : r.uniform(1.05, 1.4);
      place_grid(cv, m, o.T, r, nbins, cover);
    } else if (r.chance(0.3)) {
      place_grid(cv, m, o.T, r, (int)r.range(4, 10), 1.2);
    }
    if (r.chance(o.p_extended) && !cv.periodic()) {
      cv.extra += "  extendedLagrangian on\n  extendedFluctuation " + num(cv.width * r.uniform(0.5, 2.0)) +
                  "\n  extendedTimeConstant " + num(r.uniform(20, 200)) + "\n";
      if (r.chance(0.5)) cv.extra += "  extendedLangevinDamping " + num(r.uniform(0.5, 5.0)) + "\n";
      if (r.chance(0.3)) cv.extra += "  extendedTemp " + num(r.uniform(100, 600)) + "\n";
      if (!cv.has_bounds) place_grid(cv, m, o.T, r, (int)r.range(4, 10), 1.3);
    }
    if (r.chance(0.3)) cv.extra += "  outputAppliedForce on\n";
    if (need_tf[(size_t)i] && r.chance(0.5)) cv.extra += "  outputTotalForce on\n";
    if (r.chance(0.2)) cv.extra += "  outputVelocity on\n";
    if (o.p_subtract > 0 && need_tf[(size_t)i] && cv.extra.find("extendedLagrangian") == std::string::npos && r.chance(o.p_subtract)) cv.extra += "  subtractAppliedForce on\n";
    if (o.allow_mts && r.chance(0.02)) cv.extra += "  timeStepFactor " + std::to_string(r.range(2, 3)) + "\n";
  }
  s.config = global_config(o.traj_freq, o.restart_freq, o.smp);
  std::string sig;
  for (auto &cv : s.cvs) { s.config += cv.config(); sig += (sig.empty() ? "" : "+") + cv.kind; }
  sig += "|";
  for (int b = 0; b < nb; b++) {
    std::vector<CvSpec> sub;
    std::vector<std::pair<double, double>> rg;
    for (int i : s.bias_cvs[(size_t)b]) { sub.push_back(s.cvs[(size_t)i]); rg.push_back(s.ranges[(size_t)i]); }
    BiasSpec bs = make_bias(chosen[(size_t)b], r, sub, rg, o.T, "b" + std::to_string(b));
    if (!o.allow_mts) {
      size_t p = bs.config.find("  timeStepFactor");
      if (p != std::string::npos) bs.config.erase(p, bs.config.find('\n', p) - p + 1);
    }
    s.biases.push_back(bs);
    s.config += bs.config;
    sig += (b ? "," : "") + chosen[(size_t)b];
  }
  s.tmpl = sig;
  return s;
}

}  // namespace sim

namespace sim {

namespace {
struct Block { size_t begin, end; std::string key; };
// top-level "keyword { ... }" blocks
std::vector<Block> top_blocks(std::string const &c) {
  std::vector<Block> v;
  size_t i = 0, n = c.size();
  while (i < n) {
    size_t ls = i;
    size_t le = c.find('\n', i);
    if (le == std::string::npos) le = n;
    std::string line = c.substr(ls, le - ls);
    size_t br = line.find('{');
    if (br != std::string::npos && line.find_first_not_of(" \t") == 0) {
      // find the matching brace
      int depth = 0; size_t j = ls;
      for (; j < n; j++) { if (c[j] == '{') depth++; else if (c[j] == '}') { depth--; if (depth == 0) break; } }
      size_t e = c.find('\n', j);
      e = e == std::string::npos ? n : e + 1;
      std::string key = line.substr(0, br);
      while (!key.empty() && key.back() == ' ') key.pop_back();
      v.push_back(Block{ls, e, key});
      i = e;
    } else i = le + 1;
  }
  return v;
}
}  // namespace

void shrink_scenario_config(J const &plan, std::vector<J> &out) {
  std::string c = plan.at("scenario").at("config").as_str();
  std::vector<Block> bl = top_blocks(c);
  auto emit = [&](std::string const &nc) { J p = plan; p["scenario"]["config"] = nc; out.push_back(std::move(p)); };
  // drop bias blocks first, then colvar blocks
  for (int pass = 0; pass < 2; pass++)
    for (auto const &b : bl) {
      bool is_cv = b.key == "colvar";
      if ((pass == 0) == is_cv) continue;
      emit(c.substr(0, b.begin) + c.substr(b.end));
    }
  // drop single option lines (two-space indented, not structural)
  size_t i = 0;
  while (i < c.size()) {
    size_t le = c.find('\n', i);
    if (le == std::string::npos) le = c.size();
    std::string line = c.substr(i, le - i);
    bool structural = line.find('{') != std::string::npos || line.find('}') != std::string::npos;
    bool opt = line.compare(0, 2, "  ") == 0 && line.size() > 2 && line[2] != ' ';
    bool keep = line.compare(0, 7, "  name ") == 0 || line.compare(0, 10, "  colvars ") == 0;
    if (opt && !structural && !keep) emit(c.substr(0, i) + c.substr(std::min(c.size(), le + 1)));
    i = le + 1;
  }
  // engine simplifications
  J const &e = plan.at("scenario").at("engine");
  if (e.at("binary_state").as_bool()) { J p = plan; p["scenario"]["engine"]["binary_state"] = false; out.push_back(std::move(p)); }
  if (e.at("forces_late").as_bool()) { J p = plan; p["scenario"]["engine"]["forces_late"] = false; out.push_back(std::move(p)); }
  if (e.at("temperature").as_num() != 300.0) { J p = plan; p["scenario"]["engine"]["temperature"] = 300.0; out.push_back(std::move(p)); }
  if (e.at("dt").as_num() != 1.0) { J p = plan; p["scenario"]["engine"]["dt"] = 1.0; out.push_back(std::move(p)); }
  if (!e.at("restart_prefix").as_str().empty()) { J p = plan; p["scenario"]["engine"].erase("restart_prefix"); out.push_back(std::move(p)); }
}

std::string config_features(std::string const &c) {
  std::vector<Block> bl = top_blocks(c);
  std::vector<std::string> keys;
  for (auto const &b : bl) if (b.key != "colvar") keys.push_back(b.key);
  std::sort(keys.begin(), keys.end());
  keys.erase(std::unique(keys.begin(), keys.end()), keys.end());
  std::string s;
  for (auto &k : keys) s += (s.empty() ? "" : ",") + k;
  static const char *flags[] = {"extendedLagrangian", "timeStepFactor", "keepHills", "wellTempered", "useGrids off", "gridsUpdateFrequency",
                                "targetNumStages", "lambdaSchedule", "targetCenters", "targetForceConstant", "decoupling", "neighborList",
                                "rebinGrids", "writeTIPMF", "outputVelocity", "outputAccumulatedWork", "calcWork", "extendedLangevinDamping"};
  for (auto f : flags) if (c.find(f) != std::string::npos) s += std::string("+") + f;
  return s;
}

}  // namespace sim
