// Batch driver: seeds -> plans -> runs in worker processes; determinism gate,
// shrinking, fresh-process replay, known findings, evidence.
#pragma once
#include <cstdint>
#include <functional>
#include <map>
#include <set>
#include <string>
#include <vector>

#include "json.h"

namespace sim {

struct RunResult {
  bool violation = false;
  std::string oracle;      // oracle id, e.g. "resume_equiv"
  std::string signature;   // coarse location of the disagreement; part of the violation class
  std::string detail;      // numbers, for humans; not part of the class
  std::string features;    // coarse description of the failing scenario (bias types, flags); after shrinking it
                           // identifies the finding: fine signature = signature + "|" + features
  uint64_t fingerprint = 0;
  // coverage bookkeeping of this run
  bool nontrivial = false;
  uint64_t class_hash = 0;           // history class (template, op kinds, fired faults, schedule signature)
  std::map<std::string, long long> counters;   // steps, fault kinds fired, probes
  J to_json() const;
  static RunResult from_json(J const &j);
  std::string cls(std::string const &prop) const { return prop + "/" + oracle + "/" + signature; }
  std::string fine() const { return signature + "|" + features; }
  void fail(std::string const &o, std::string const &sig, std::string const &det) {
    if (violation) return;  // keep the first
    violation = true; oracle = o; signature = sig; detail = det;
  }
};

struct Property {
  std::string id;
  std::string level;                 // exploration | fault_enumeration
  std::string rule;                  // generation rule + what makes a case non-trivial/distinct
  std::vector<std::string> assumptions;
  std::vector<std::string> real_components, stub_components;
  J (*gen)(uint64_t seed, bool thorough) = nullptr;
  RunResult (*run)(J const &plan) = nullptr;
  // optional: extra shrink candidates for a failing plan
  void (*shrink_more)(J const &plan, std::vector<J> &out) = nullptr;
  // optional: features of a plan, used for runs that die (a dead worker cannot report its own)
  std::string (*plan_features)(J const &plan) = nullptr;
  long quick_runs = 400, thorough_runs = 20000;
  double quick_secs = 75, thorough_secs = 900;
  int run_timeout_s = 60;
  int confirm_timeout_factor = 5;    // isolated replays (which decide) get this many times the batch budget
  bool exhaustive = false;
  std::string design_ref;
};

void register_property(Property const &p);
Property *find_property(std::string const &id);
std::vector<Property> &all_properties();

struct Registrar { explicit Registrar(Property const &p) { register_property(p); } };

int harness_main(int argc, char **argv);

// helpers for properties
uint64_t hash_plan_shape(J const &plan);   // template + op kinds + fault kinds

}  // namespace sim
