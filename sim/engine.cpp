#include "engine.h"
#include "baton.h"
#include "fs.h"
#include "simgomp.h"

#include <cmath>
#include <cstdio>
#include <cstring>

namespace sim {

std::string fmt_double(double v) { char b[40]; snprintf(b, sizeof b, "%.17g", v); return b; }

void EngineCfg::to_json(J &j) const {
  j["walker"] = walker; j["n_walkers"] = n_walkers; j["natoms"] = natoms; j["data_seed"] = (long long)data_seed;
  j["pbc"] = pbc; j["box"] = box; j["dt"] = dt; j["temperature"] = temperature; j["forces_late"] = forces_late;
  j["traj_amp"] = traj_amp; j["force_amp"] = force_amp; j["restart_freq"] = restart_freq; j["binary_state"] = binary_state; j["setup_each_run"] = setup_each_run;
  j["smp"] = smp; j["threads"] = threads; j["closed_loop"] = closed_loop; j["frozen"] = frozen; j["noise_seed"] = (long long)noise_seed;
  if (!out_prefix.empty()) j["out_prefix"] = out_prefix;
  if (!restart_prefix.empty()) j["restart_prefix"] = restart_prefix;
}
void EngineCfg::from_json(J const &j) {
  EngineCfg d;
  walker = (int)j.at("walker").as_int(d.walker); n_walkers = (int)j.at("n_walkers").as_int(d.n_walkers);
  natoms = (int)j.at("natoms").as_int(d.natoms); data_seed = (uint64_t)j.at("data_seed").as_int((long long)d.data_seed);
  pbc = j.at("pbc").as_bool(d.pbc); box = j.at("box").as_num(d.box); dt = j.at("dt").as_num(d.dt);
  temperature = j.at("temperature").as_num(d.temperature); forces_late = j.at("forces_late").as_bool(d.forces_late);
  traj_amp = j.at("traj_amp").as_num(d.traj_amp); force_amp = j.at("force_amp").as_num(d.force_amp);
  restart_freq = (int)j.at("restart_freq").as_int(d.restart_freq); binary_state = j.at("binary_state").as_bool(d.binary_state); setup_each_run = j.at("setup_each_run").as_bool(d.setup_each_run);
  smp = j.at("smp").as_bool(d.smp); threads = (int)j.at("threads").as_int(d.threads);
  closed_loop = j.at("closed_loop").as_bool(d.closed_loop); frozen = j.at("frozen").as_bool(d.frozen);
  noise_seed = (uint64_t)j.at("noise_seed").as_int((long long)d.noise_seed);
  out_prefix = j.at("out_prefix").as_str(""); restart_prefix = j.at("restart_prefix").as_str("");
}

uint64_t StepRec::hash() const {
  uint64_t h = fnv_u64((uint64_t)step, 1469598103934665603ULL);
  h = fnv_u64((uint64_t)err, h);
  h = fnv_dbl(energy, h);
  for (double v : cv) h = fnv_dbl(v, h);
  for (double v : bias_e) h = fnv_dbl(v, h);
  for (double v : fapp) h = fnv_dbl(v, h);
  for (double v : cv_ft) h = fnv_dbl(v, h);
  return h;
}

Net &net() { static Net *n = new Net(); return *n; }

// ---- module statics per walker ----
void ModuleStatics::save() {
  proxy = colvarmodule::proxy; it = colvarmodule::it; it_restart = colvarmodule::it_restart;
  errorCode = colvars_verif_access::errorCode(); log_level = colvars_verif_access::log_level();
  cv_traj_freq = colvarmodule::cv_traj_freq; restart_out_freq = colvarmodule::restart_out_freq;
  use_scripted_forces = colvarmodule::use_scripted_forces; scripting_after_biases = colvarmodule::scripting_after_biases;
  debug_gradients_step_size = colvarmodule::debug_gradients_step_size;
  monitor_crossings = colvarmodule::rotation::monitor_crossings; crossing_threshold = colvarmodule::rotation::crossing_threshold;
}
void ModuleStatics::load() const {
  colvarmodule::proxy = proxy; colvarmodule::it = it; colvarmodule::it_restart = it_restart;
  colvars_verif_access::errorCode() = errorCode; colvars_verif_access::log_level() = log_level;
  colvarmodule::cv_traj_freq = cv_traj_freq; colvarmodule::restart_out_freq = restart_out_freq;
  colvarmodule::use_scripted_forces = use_scripted_forces; colvarmodule::scripting_after_biases = scripting_after_biases;
  colvarmodule::debug_gradients_step_size = debug_gradients_step_size;
  colvarmodule::rotation::monitor_crossings = monitor_crossings; colvarmodule::rotation::crossing_threshold = crossing_threshold;
}
static std::vector<ModuleStatics> g_wstat;
static void walker_switch_hook(int from, int to) {
  if (from >= 0 && (size_t)from < g_wstat.size()) g_wstat[(size_t)from].save();
  if (to >= 0 && (size_t)to < g_wstat.size()) g_wstat[(size_t)to].load();
}
void walkers_reset(int n) {
  g_wstat.assign((size_t)n, ModuleStatics());
  ModuleStatics().load();   // no module is alive at this point: start from the library's initial values
  sched_set_switch_hook(n > 1 ? walker_switch_hook : nullptr);
}
ModuleStatics &walker_statics(int w) { return g_wstat[(size_t)w]; }

// ---- Engine ----
Engine::Engine(EngineCfg const &c) : cfg(c) {
  engine_name_ = "cvsim";
  version_int = get_version_from_string(COLVARS_VERSION);
  b_simulation_running = true;
  angstrom_value_ = 1.0;
  kcal_mol_value_ = 1.0;
  units = "real";
  updated_masses_ = updated_charges_ = true;
  set_target_temperature(cfg.temperature);
  set_integration_timestep(cfg.dt);
  if (cfg.out_prefix.empty()) cfg.out_prefix = "/simfs/w" + std::to_string(cfg.walker) + "/out";
  set_output_prefix(cfg.out_prefix);
  set_restart_output_prefix(cfg.restart_prefix);
  set_default_restart_frequency(cfg.restart_freq);
  set_smp_mode(cfg.smp ? smp_mode_t::cvcs : smp_mode_t::none);
  build_model();
  if (cfg.pbc) {
    boundaries_type = boundaries_pbc_ortho;
    unit_cell_x.set(cfg.box, 0, 0); unit_cell_y.set(0, cfg.box, 0); unit_cell_z.set(0, 0, cfg.box);
    update_pbc_lattice();
  } else {
    boundaries_type = boundaries_non_periodic;
    reset_pbc_lattice();
  }
  colvars = new colvarmodule(this);
  colvars->binary_restart = cfg.binary_state;
  cvm::rotation::monitor_crossings = false;
  have_scripts = true;
}

Engine::~Engine() {
  // delete the module while this object's virtuals (log, error) are still in place
  if (colvars != NULL) { delete colvars; colvars = NULL; }
}

void Engine::build_model() {
  int n = cfg.natoms;
  model.build(cfg.data_seed, n, cfg.traj_amp, cfg.force_amp, cfg.frozen);
  last_pos.assign((size_t)n, cvm::rvector(0, 0, 0));
  last_fsys = last_fcv = last_delivered = last_pos;
  cl_pos.clear(); cl_vel.clear();
}

cvm::rvector Engine::pos_at(int id, long step) const { V3 p = model.pos(id, step); return cvm::rvector(p.x, p.y, p.z); }
cvm::rvector Engine::fsys_at(int id, long step) const { V3 p = model.fsys(id, step); return cvm::rvector(p.x, p.y, p.z); }

int Engine::setup() { return colvars ? colvars->update_engine_parameters() : COLVARS_OK; }
void Engine::request_total_force(bool yesno) { total_force_requested = yesno; }
bool Engine::total_forces_enabled() const { return total_force_requested; }
bool Engine::total_forces_same_step() const { return !cfg.forces_late; }

void Engine::log(std::string const &m) {
  std::lock_guard<std::mutex> g(log_mu_);
  n_log++;
  log_lines.push_back(m);
  { static const bool echo = getenv("CVSIM_ECHO_LOG") != nullptr; if (echo) fprintf(stderr, "LOG: %s", m.c_str()); }
  if ((int)log_lines.size() > cfg.log_keep) log_lines.pop_front();
}
void Engine::error(std::string const &m) {
  std::lock_guard<std::mutex> g(log_mu_);
  n_err++;
  add_error_msg(m);
  error_lines.push_back(m);
  if ((int)error_lines.size() > cfg.log_keep) error_lines.pop_front();
  log_lines.push_back("ERR: " + m);
  if ((int)log_lines.size() > cfg.log_keep) log_lines.pop_front();
}
bool Engine::log_contains(std::string const &needle) const {
  for (auto &l : log_lines) if (l.find(needle) != std::string::npos) return true;
  return false;
}

int Engine::set_unit_system(std::string const &u, bool check_only) {
  if (u != "real") {
    cvm::error("Error: unit system \"" + u + "\" not supported by the simulated engine (real only).\n", COLVARS_INPUT_ERROR);
    return COLVARS_ERROR;
  }
  (void)check_only;
  return COLVARS_OK;
}

int Engine::check_atom_id(int atom_number) {
  int aid = atom_number - 1;
  if (aid < 0 || aid >= cfg.natoms) {
    cvm::error("Error: invalid atom number specified, " + cvm::to_str(atom_number) + "\n", COLVARS_INPUT_ERROR);
    return COLVARS_INPUT_ERROR;
  }
  return aid;
}

int Engine::init_atom(int atom_number) {
  int aid = atom_number - 1;
  for (size_t i = 0; i < atoms_ids.size(); i++) {
    if (atoms_ids[i] == aid) { atoms_refcount[i] += 1; return (int)i; }
  }
  aid = check_atom_id(atom_number);
  if (aid < 0) return COLVARS_INPUT_ERROR;
  int const index = add_atom_slot(aid);
  atoms_masses[(size_t)index] = model.mass[(size_t)aid];
  atoms_charges[(size_t)index] = model.charge[(size_t)aid];
  updated_masses_ = updated_charges_ = true;
  return index;
}

cvm::real Engine::rand_gaussian() {
  return counter_gauss(cfg.noise_seed, (uint64_t)cfg.walker, (uint64_t)cvm::step_absolute(), (uint64_t)(gauss_calls++));
}

void Engine::add_energy(cvm::real e) { energy_acc += e; }

int Engine::run_force_callback() {
  if (!force_callback) return COLVARS_NOT_IMPLEMENTED;
  return force_callback();
}

int Engine::smp_num_threads() { return gomp_get_threads(); }

// ---- replicas over sim::Net ----
int Engine::check_replicas_enabled() { return cfg.n_walkers > 1 ? COLVARS_OK : COLVARS_NOT_IMPLEMENTED; }
int Engine::replica_index() { return cfg.walker; }
int Engine::num_replicas() { return cfg.n_walkers; }

namespace {
struct RecvWait { int src, dst; };
bool recv_ready(void *p) {
  RecvWait *w = (RecvWait *)p;
  auto it = net().q.find({w->src, w->dst});
  return it != net().q.end() && !it->second.empty();
}
struct BarWait { long gen; };
bool bar_done(void *p) { return net().bar_gen != ((BarWait *)p)->gen; }
}  // namespace

void Engine::replica_comm_barrier() {
  Net &N = net();
  N.barriers++;
  N.bar_arrived++;
  int live = 0;
  for (bool a : N.alive) if (a) live++;
  if (N.bar_arrived >= live) { N.bar_arrived = 0; N.bar_gen++; sched_yield(Y_NET, 3); return; }
  BarWait bw{N.bar_gen};
  sched_wait(bar_done, &bw, Y_NET, 4);
}

int Engine::replica_comm_recv(char *msg_data, int buf_len, int src_rep) {
  RecvWait w{src_rep, cfg.walker};
  if (!sched_wait(recv_ready, &w, Y_NET, (uint64_t)(1000 + src_rep))) return 0;
  Net &N = net();
  std::string &m = N.q[{src_rep, cfg.walker}].front();
  int n = (int)std::min((size_t)buf_len, m.size());
  memcpy(msg_data, m.data(), (size_t)n);
  N.q[{src_rep, cfg.walker}].pop_front();
  N.received++;
  return n;
}

int Engine::replica_comm_send(char *msg_data, int msg_len, int dest_rep) {
  Net &N = net();
  N.q[{cfg.walker, dest_rep}].emplace_back(msg_data, (size_t)msg_len);
  N.sent++; N.bytes += (uint64_t)msg_len;
  sched_yield(Y_NET, (uint64_t)(2000 + dest_rep));
  return msg_len;
}

// ---- driving ----
int Engine::configure(std::string const &conf) {
  int err = colvars->read_config_string(conf);
  return err;
}

void Engine::set_out_prefix(std::string const &p) {
  cfg.out_prefix = p;
  set_output_prefix(p);
}

int Engine::load_state(std::string const &prefix) {
  set_input_prefix(prefix);
  return colvars->setup_input();
}

int Engine::load_state_string(std::string const &state) {
  input_stream_from_string("input state string", state);
  return colvars->setup_input();
}

std::string Engine::save_state_string() {
  std::string s;
  colvars->write_restart_string(s);
  return s;
}

int Engine::run_script(std::vector<std::string> const &args, std::string *result) {
  std::vector<unsigned char *> objv;
  for (auto const &a : args) objv.push_back((unsigned char *)a.c_str());
  int rc = this->script->run((int)objv.size(), objv.data());
  if (result) *result = this->script->str_result();
  return rc;
}

void Engine::fill_inputs(long step, bool first_of_run) {
  int n = cfg.natoms;
  std::vector<cvm::rvector> pos((size_t)n), fs((size_t)n);
  if (cfg.closed_loop && !cl_pos.empty()) pos = cl_pos;
  else for (int i = 0; i < n; i++) pos[(size_t)i] = pos_at(i, step);
  if (pos_override) pos_override(step, pos);
  for (int i = 0; i < n; i++) fs[(size_t)i] = fsys_at(i, step);
  if (fsys_override) fsys_override(step, fs);

  // what the engine delivers as "total force" at this call
  std::vector<cvm::rvector> deliver((size_t)n, cvm::rvector(0, 0, 0));
  bool have = false;
  if (total_force_requested) {
    if (!cfg.forces_late) { deliver = fs; have = true; }
    else if (cvm::step_relative() > 0 && last_delivered_valid) {
      // forces that acted during the previous step, Colvars' own included
      for (int i = 0; i < n; i++) deliver[(size_t)i] = last_fsys[(size_t)i] + last_fcv[(size_t)i];
      have = true;
    }
  }
  (void)first_of_run;
  last_delivered = deliver;
  last_pos = pos;
  last_fsys = fs;
  for (size_t s = 0; s < atoms_ids.size(); s++) {
    size_t id = (size_t)atoms_ids[s];
    atoms_positions[s] = pos[id];
    atoms_total_forces[s] = have ? deliver[id] : cvm::rvector(0, 0, 0);
    atoms_new_colvar_forces[s] = cvm::rvector(0, 0, 0);
  }
  for (size_t g = 0; g < atom_groups_ids.size(); g++) {
    atom_groups_total_forces[g] = cvm::rvector(0, 0, 0);
    atom_groups_new_colvar_forces[g] = cvm::rvector(0, 0, 0);
  }
}

void Engine::record_step(long step, bool continuing, int err) {
  int n = cfg.natoms;
  // forces Colvars applied, by atom id
  std::vector<cvm::rvector> fcv((size_t)n, cvm::rvector(0, 0, 0));
  for (size_t s = 0; s < atoms_ids.size(); s++) fcv[(size_t)atoms_ids[s]] += atoms_new_colvar_forces[s];
  last_fcv = fcv;
  last_delivered_valid = true;
  if (!record) return;
  rec.emplace_back();
  StepRec &r = rec.back();
  r.step = step; r.continuing = continuing; r.err = err; r.energy = energy_acc;
  r.fapp.resize((size_t)(3 * n));
  for (int i = 0; i < n; i++) { r.fapp[(size_t)(3 * i)] = fcv[(size_t)i].x; r.fapp[(size_t)(3 * i + 1)] = fcv[(size_t)i].y; r.fapp[(size_t)(3 * i + 2)] = fcv[(size_t)i].z; }
  std::vector<colvar *> &cvs = *colvars->variables();
  r.cv_off.push_back(0);
  for (colvar *cv : cvs) {
    cvm::vector1d<cvm::real> v = cv->value().as_vector();
    for (size_t k = 0; k < v.size(); k++) r.cv.push_back(v[k]);
    bool has_ft = cv->is_enabled(colvardeps::f_cv_total_force);
    cvm::vector1d<cvm::real> ft = cv->total_force().as_vector();
    cvm::vector1d<cvm::real> fa = cv->applied_force().as_vector();
    for (size_t k = 0; k < v.size(); k++) {
      r.cv_ft.push_back(has_ft && k < ft.size() ? ft[k] : 0.0);
      r.cv_fa.push_back(k < fa.size() ? fa[k] : 0.0);
    }
    r.cv_off.push_back((int)r.cv.size());
  }
  for (colvarbias *b : colvars->biases) r.bias_e.push_back(b->get_energy());
}

int Engine::single_step() {
  // protocol position is kept in first_run / first_step by run(); this helper
  // performs exactly one calc() at absolute step cvm::it
  long step = (long)cvm::step_absolute();
  energy_acc = 0; gauss_calls = 0;
  fill_inputs(step, false);
  int err = colvars->calc();
  int bits = cvm::get_error();
  record_step(step, b_simulation_continuing, err | bits);
  steps_done++;
  if (cfg.closed_loop) {
    // velocity Verlet with unit conversion ignored (engine units)
    int n = cfg.natoms;
    if (cl_pos.empty()) { cl_pos = last_pos; cl_vel.assign((size_t)n, cvm::rvector(0, 0, 0)); }
    for (int i = 0; i < n; i++) {
      cvm::rvector f = last_fsys[(size_t)i] + last_fcv[(size_t)i];
      cl_vel[(size_t)i] += f * (cfg.dt * 1e-3 / model.mass[(size_t)i]);
      cl_pos[(size_t)i] += cl_vel[(size_t)i] * cfg.dt;
    }
  }
  return err;
}

int Engine::run(int n, bool graceful_end) {
  int err = COLVARS_OK;
  for (int k = 0; k <= n; k++) {
    if (halted) return err;
    if (dead || fs().is_dead(cfg.walker)) { dead = true; return err; }
    if (first_run && k == 0) {
      // first calc of a fresh process (NAMD: first_timestep branch)
      setup();
      colvars->update_engine_parameters();
      colvars->setup_input();
      colvars->setup_output();
      b_simulation_continuing = false;
      first_run = false;
      first_step = (long)cvm::step_absolute();
    } else if (k == 0) {
      // first calc of a later run: same absolute step again
      b_simulation_continuing = true;
      set_output_prefix(cfg.out_prefix);
      set_restart_output_prefix(cfg.restart_prefix);
      set_default_restart_frequency(cfg.restart_freq);
      if (cfg.setup_each_run) {
        // LAMMPS calls its proxy's setup() at every run: engine parameters, pending input, output
        colvars->update_engine_parameters();
        colvars->setup_input();
      }
      colvars->setup_output();
    } else {
      colvars->it++;
      b_simulation_continuing = false;
    }
    if (before_step) before_step((long)cvm::step_absolute());
    err |= single_step();
    if (halt_on_error && (cvm::get_error() || err != COLVARS_OK)) { halted = true; halt_message = last_error(); first_step = (long)cvm::step_absolute(); return err; }
    if (after_step) after_step((long)cvm::step_absolute());
    sched_yield(Y_STEP, (uint64_t)cvm::step_absolute());
    if (dead || fs().is_dead(cfg.walker)) { dead = true; return err; }
  }
  first_step = (long)cvm::step_absolute();
  if (graceful_end) err |= end_run();
  return err;
}

int Engine::end_run() { return post_run(); }

}  // namespace sim

extern "C" int __wrap_rand(void) {
  // ALB is the only caller in the library: a pure function of (seed, walker, step, call index),
  // so that a resumed run sees the numbers the uninterrupted run saw
  sim::Engine *e = colvarmodule::proxy ? dynamic_cast<sim::Engine *>(colvarmodule::proxy) : nullptr;
  static uint64_t ctr = 0;
  uint64_t k;
  if (e) k = sim::mix64(sim::mix64(sim::mix64(e->cfg.noise_seed ^ 0xabcdefULL, (uint64_t)e->cfg.walker), (uint64_t)cvm::step_absolute()), (uint64_t)(e->gauss_calls++));
  else { uint64_t x = 0x9e3779b97f4a7c15ULL * (++ctr); k = sim::splitmix64(x); }
  return (int)(k & 0x7fffffff);
}
