// sim::FS — in-memory file system under the libc calls that libstdc++'s
// basic_filebuf and colvarproxy_io make (link-time --wrap, no source change).
// Crash model: process death.  What a write() call returned is durable; what
// sits in an iostream buffer is not.
#pragma once
#include <cstdint>
#include <functional>
#include <map>
#include <memory>
#include <string>
#include <vector>

namespace sim {

enum FsKind : int {
  FS_OPEN_R = 0, FS_OPEN_W, FS_OPEN_A, FS_WRITE, FS_READ, FS_CLOSE, FS_ACCESS,
  FS_RENAME, FS_REMOVE, FS_SEEK, FS_STAT, FS_FLUSH, FS_NKINDS
};
extern const char *const fs_kind_names[FS_NKINDS];

enum FsFaultKind : int {
  FF_SHORT = 0,   // write returns arg (< n) bytes; caller retries (legal short write)
  FF_EIO,         // call fails with EIO
  FF_ENOSPC,      // write/open fails with ENOSPC
  FF_EINTR,       // access/rename fail with EINTR `arg` times, then succeed
  FF_CRASH_BEFORE,// owner dies immediately before this call takes effect
  FF_CRASH_AFTER, // owner dies immediately after this call took effect
  FF_CRASH_IN,    // owner dies after `arg` bytes of this write became durable
  FF_NKINDS
};
extern const char *const fs_fault_names[FF_NKINDS];

struct FsFault {
  int kind = FF_EIO;
  int call = -1;            // FsKind to match, -1: any call
  std::string suffix;       // path suffix to match ("" any)
  int nth = 0;              // n-th matching call since arming (0-based)
  long arg = 0;
  // run-time
  int seen = 0;
  bool fired = false;
  int remaining = 0;
};

struct FsMutation {
  enum K { CREATE, WRITE, RENAME, REMOVE } k;
  std::string path, path2;
  size_t off = 0;
  std::vector<unsigned char> data;
  uint64_t file_id = 0;     // identity of the file object written/created
  bool truncate = true;     // CREATE: truncate existing content
  int walker = 0;
  uint64_t call_seq = 0;
  int call_kind = 0;
};

typedef std::map<std::string, std::string> FsImage;

struct FsStats {
  uint64_t calls[FS_NKINDS] = {0};
  uint64_t faults_fired[FF_NKINDS] = {0};
  uint64_t chunked_writes = 0;   // writes split by the chunk knob
  uint64_t zombie_calls = 0;     // calls by a dead walker (no effect)
  uint64_t bytes_written = 0, bytes_read = 0;
};

class FS {
public:
  void reset();
  // direct (harness-side) access
  bool exists(std::string const &path) const;
  bool get(std::string const &path, std::string &out) const;
  void put(std::string const &path, std::string const &data);
  void erase(std::string const &path);
  std::vector<std::string> list(std::string const &prefix = "") const;
  FsImage snapshot() const;
  void restore(FsImage const &img);

  // per-walker controls
  void set_chunk(int walker, size_t chunk);
  std::vector<std::string> chunk_exempt_suffixes;   // files whose writes are never split (assumed atomic appends)
  void arm_faults(int walker, std::vector<FsFault> const &f);
  std::vector<FsFault> disarm_faults(int walker);
  void arm_faults_keep(int walker, std::vector<FsFault> const &f) { faults_[walker] = f; }   // keeps run-time counters
  bool is_dead(int walker) const;
  void set_dead(int walker, bool d);

  // mutation journal (C11 crash-point enumeration)
  void journal_start();
  void journal_stop();
  std::vector<FsMutation> const &journal() const { return journal_; }
  // image after the first n journal entries (applied to the image captured by
  // journal_start), plus `partial` bytes of entry n if that is a WRITE
  FsImage image_at(size_t n, size_t partial) const;

  // observer (harness side, must not touch the scheduler): a walker opened an existing file for reading
  std::function<void(int walker, std::string const &path, uint64_t file_id)> on_open_read;

  FsStats stats;
  bool active = false;
  uint64_t call_seq = 0;

  // ---- used by the libc wrappers ----
  struct FileObj { uint64_t id = 0; std::vector<unsigned char> bytes; };
  struct Handle {
    std::shared_ptr<FileObj> f;
    size_t off = 0;
    bool append = false, writable = false, readable = false;
    int owner = 0;
    std::string path;
  };
  bool map_path(const char *path, std::string &out) const;
  std::map<int, Handle> handles;
  std::map<std::string, std::shared_ptr<FileObj>> files;
  std::shared_ptr<FileObj> new_file();

  // returns fault kind fired for this call or -1
  FsFault *match_fault(int walker, int call, std::string const &path);
  size_t chunk_of(int walker) const;
  void record(FsMutation &&m);
  bool journaling() const { return journal_on_; }

private:
  std::map<int, size_t> chunk_;
  std::map<int, std::vector<FsFault>> faults_;
  std::map<int, bool> dead_;
  bool journal_on_ = false;
  std::vector<FsMutation> journal_;
  std::map<std::string, uint64_t> base_names_;
  std::map<uint64_t, std::string> base_data_;
  uint64_t next_id_ = 1;
};

FS &fs();

}  // namespace sim
