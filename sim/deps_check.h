// Consistency of the dependency graph (C13), read through the guarded friend accessor.
#pragma once
#include <set>
#include <string>
#include <vector>
#include "engine.h"
#include "colvardeps.h"

struct colvars_verif_deps : public colvars_verif_access {};

namespace sim {

struct DepsAccess {
  static std::vector<colvardeps::feature_state> const &states(colvardeps *o);
  static std::vector<colvardeps *> const &children(colvardeps *o);
  static std::vector<colvardeps *> const &parents(colvardeps *o);
};

// returns "" if consistent, else a description; `sig` gets a coarse signature
std::string check_deps(colvarmodule *m, std::string &sig, long *objects_checked = nullptr);

}  // namespace sim
