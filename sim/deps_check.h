// Consistency of the dependency graph (C13), read through the guarded friend accessor.
#pragma once
#include <map>
#include <set>
#include <string>
#include <vector>
#include "engine.h"
#include "colvardeps.h"

struct colvars_verif_deps : public colvars_verif_access {};

namespace sim {

struct DepsAccess {
  static std::vector<colvardeps::feature_state> const &states(colvardeps *o);
  static std::vector<colvardeps *> const &children(colvardeps *o);
  static std::vector<colvardeps *> const &parents(colvardeps *o);
};

// returns "" if consistent, else a description; `sig` gets a coarse signature
std::string check_deps(colvarmodule *m, std::string &sig, long *objects_checked = nullptr);

// enabled features of one object as "a;b;c;"
std::string enabled_features(colvardeps *o);
// enabled features of every variable and bias of the module, keyed "variable <name>" / "bias <name>"
std::map<std::string, std::string> module_features(colvarmodule *m);
// first difference between two such maps over the keys of `twin` (diagnostic only); returns false if none.
// A capability known to change forces by itself (hide_Jacobian_force) is named in preference to the others.
bool feature_difference(std::map<std::string, std::string> const &test, std::map<std::string, std::string> const &twin, std::string &sig, std::string &text);

}  // namespace sim
