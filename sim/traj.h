// Kinematic trajectory / force model of the simulated engine: a pure function
// of (data seed, atom id, absolute step).  Independent of Colvars so that plan
// generators can evaluate geometry without instantiating the library.
#pragma once
#include <cmath>
#include <cstdint>
#include <vector>
#include "rng.h"

namespace sim {

struct V3 {
  double x = 0, y = 0, z = 0;
  V3() {}
  V3(double a, double b, double c) : x(a), y(b), z(c) {}
  V3 operator+(V3 const &o) const { return V3(x + o.x, y + o.y, z + o.z); }
  V3 operator-(V3 const &o) const { return V3(x - o.x, y - o.y, z - o.z); }
  V3 operator*(double s) const { return V3(x * s, y * s, z * s); }
  double dot(V3 const &o) const { return x * o.x + y * o.y + z * o.z; }
  V3 cross(V3 const &o) const { return V3(y * o.z - z * o.y, z * o.x - x * o.z, x * o.y - y * o.x); }
  double norm() const { return std::sqrt(dot(*this)); }
};

struct TrajModel {
  struct Wave { double a[3], w[3], p[3]; };
  int natoms = 0;
  bool frozen = false;
  std::vector<V3> base;
  std::vector<double> mass, charge;
  std::vector<std::vector<Wave>> pw, fw;

  void build(uint64_t data_seed, int n, double traj_amp, double force_amp, bool frozen_) {
    Rng r(data_seed, 101);
    natoms = n; frozen = frozen_;
    base.resize((size_t)n); mass.resize((size_t)n); charge.resize((size_t)n);
    pw.assign((size_t)n, std::vector<Wave>(3)); fw.assign((size_t)n, std::vector<Wave>(3));
    V3 p;
    const double tau = 6.283185307179586;
    for (int i = 0; i < n; i++) {
      V3 d(r.uniform(0.6, 1.0), r.uniform(-0.8, 0.8), r.uniform(-0.8, 0.8));
      d = d * (r.uniform(1.4, 2.2) / d.norm());
      p = p + d;
      base[(size_t)i] = p;
      mass[(size_t)i] = r.uniform(1.0, 16.0);
      charge[(size_t)i] = r.uniform(-1.0, 1.0);
      for (int c = 0; c < 3; c++)
        for (int k = 0; k < 3; k++) {
          pw[(size_t)i][(size_t)c].a[k] = traj_amp * r.uniform(0.2, 1.0) / (1 + k);
          pw[(size_t)i][(size_t)c].w[k] = tau / r.uniform(9.0, 90.0);
          pw[(size_t)i][(size_t)c].p[k] = r.uniform(0, tau);
          fw[(size_t)i][(size_t)c].a[k] = force_amp * r.uniform(0.2, 1.0) / (1 + k);
          fw[(size_t)i][(size_t)c].w[k] = tau / r.uniform(5.0, 60.0);
          fw[(size_t)i][(size_t)c].p[k] = r.uniform(0, tau);
        }
    }
  }
  static double wave(Wave const &w, double t) {
    return w.a[0] * std::sin(w.w[0] * t + w.p[0]) + w.a[1] * std::sin(w.w[1] * t + w.p[1]) + w.a[2] * std::sin(w.w[2] * t + w.p[2]);
  }
  V3 pos(int id, long step) const {
    V3 p = base[(size_t)id];
    if (frozen) return p;
    double t = (double)step;
    return V3(p.x + wave(pw[(size_t)id][0], t), p.y + wave(pw[(size_t)id][1], t), p.z + wave(pw[(size_t)id][2], t));
  }
  V3 fsys(int id, long step) const {
    double t = (double)step;
    return V3(wave(fw[(size_t)id][0], t), wave(fw[(size_t)id][1], t), wave(fw[(size_t)id][2], t));
  }
  // centre of mass of a group of atom ids (0-based)
  V3 com(std::vector<int> const &g, long step) const {
    V3 s; double m = 0;
    for (int id : g) { s = s + pos(id, step) * mass[(size_t)id]; m += mass[(size_t)id]; }
    return s * (1.0 / m);
  }
};

}  // namespace sim
