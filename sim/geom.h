// Small independent geometry reference: optimal superposition (Horn's quaternion
// method, cyclic Jacobi on the 4x4 matrix), minimum RMSD, radius of gyration.
// Written from the textbook definitions; shares no code with the library.
#pragma once
#include <cmath>
#include <vector>
#include "traj.h"

namespace sim {

struct M3 {
  double m[3][3] = {{1, 0, 0}, {0, 1, 0}, {0, 0, 1}};
  V3 apply(V3 const &v) const { return V3(m[0][0] * v.x + m[0][1] * v.y + m[0][2] * v.z, m[1][0] * v.x + m[1][1] * v.y + m[1][2] * v.z, m[2][0] * v.x + m[2][1] * v.y + m[2][2] * v.z); }
  V3 apply_t(V3 const &v) const { return V3(m[0][0] * v.x + m[1][0] * v.y + m[2][0] * v.z, m[0][1] * v.x + m[1][1] * v.y + m[2][1] * v.z, m[0][2] * v.x + m[1][2] * v.y + m[2][2] * v.z); }
};

inline V3 centroid(std::vector<V3> const &p) { V3 c; for (auto const &v : p) c = c + v; return c * (1.0 / (double)p.size()); }

// symmetric 4x4 eigen decomposition, cyclic Jacobi; returns eigenvalues in w, eigenvectors in columns of v
inline void jacobi4(double a[4][4], double w[4], double v[4][4]) {
  for (int i = 0; i < 4; i++) for (int j = 0; j < 4; j++) v[i][j] = i == j;
  for (int sweep = 0; sweep < 60; sweep++) {
    double off = 0;
    for (int i = 0; i < 4; i++) for (int j = i + 1; j < 4; j++) off += a[i][j] * a[i][j];
    if (off < 1e-300) break;
    for (int p = 0; p < 4; p++)
      for (int q = p + 1; q < 4; q++) {
        if (a[p][q] == 0.0) continue;
        double theta = (a[q][q] - a[p][p]) / (2.0 * a[p][q]);
        double t = (theta >= 0 ? 1.0 : -1.0) / (std::fabs(theta) + std::sqrt(theta * theta + 1.0));
        double c = 1.0 / std::sqrt(t * t + 1.0), s = t * c;
        for (int k = 0; k < 4; k++) { double akp = a[k][p], akq = a[k][q]; a[k][p] = c * akp - s * akq; a[k][q] = s * akp + c * akq; }
        for (int k = 0; k < 4; k++) { double apk = a[p][k], aqk = a[q][k]; a[p][k] = c * apk - s * aqk; a[q][k] = s * apk + c * aqk; }
        for (int k = 0; k < 4; k++) { double vkp = v[k][p], vkq = v[k][q]; v[k][p] = c * vkp - s * vkq; v[k][q] = s * vkp + c * vkq; }
      }
  }
  for (int i = 0; i < 4; i++) w[i] = a[i][i];
}

// rotation R minimising sum |R x_i - r_i|^2 (both sets already centred); returns the largest eigenvalue
inline double optimal_rotation(std::vector<V3> const &x, std::vector<V3> const &r, M3 &R, double *gap = nullptr) {
  double S[3][3] = {{0, 0, 0}, {0, 0, 0}, {0, 0, 0}};
  for (size_t i = 0; i < x.size(); i++) {
    double xv[3] = {x[i].x, x[i].y, x[i].z}, rv[3] = {r[i].x, r[i].y, r[i].z};
    for (int a = 0; a < 3; a++) for (int b = 0; b < 3; b++) S[a][b] += xv[a] * rv[b];
  }
  double N[4][4] = {
      {S[0][0] + S[1][1] + S[2][2], S[1][2] - S[2][1], S[2][0] - S[0][2], S[0][1] - S[1][0]},
      {S[1][2] - S[2][1], S[0][0] - S[1][1] - S[2][2], S[0][1] + S[1][0], S[2][0] + S[0][2]},
      {S[2][0] - S[0][2], S[0][1] + S[1][0], -S[0][0] + S[1][1] - S[2][2], S[1][2] + S[2][1]},
      {S[0][1] - S[1][0], S[2][0] + S[0][2], S[1][2] + S[2][1], -S[0][0] - S[1][1] + S[2][2]}};
  double w[4], v[4][4];
  jacobi4(N, w, v);
  int best = 0; for (int i = 1; i < 4; i++) if (w[i] > w[best]) best = i;
  if (gap) { double second = -1e300; for (int i = 0; i < 4; i++) if (i != best && w[i] > second) second = w[i]; *gap = w[best] - second; }
  double q0 = v[0][best], q1 = v[1][best], q2 = v[2][best], q3 = v[3][best];
  double n = std::sqrt(q0 * q0 + q1 * q1 + q2 * q2 + q3 * q3); q0 /= n; q1 /= n; q2 /= n; q3 /= n;
  R.m[0][0] = q0 * q0 + q1 * q1 - q2 * q2 - q3 * q3; R.m[0][1] = 2 * (q1 * q2 - q0 * q3); R.m[0][2] = 2 * (q1 * q3 + q0 * q2);
  R.m[1][0] = 2 * (q1 * q2 + q0 * q3); R.m[1][1] = q0 * q0 - q1 * q1 + q2 * q2 - q3 * q3; R.m[1][2] = 2 * (q2 * q3 - q0 * q1);
  R.m[2][0] = 2 * (q1 * q3 - q0 * q2); R.m[2][1] = 2 * (q2 * q3 + q0 * q1); R.m[2][2] = q0 * q0 - q1 * q1 - q2 * q2 + q3 * q3;
  return w[best];
}

inline double radius_of_gyration(std::vector<V3> const &p) {
  V3 c = centroid(p); double s = 0;
  for (auto const &v : p) { V3 d = v - c; s += d.dot(d); }
  return std::sqrt(s / (double)p.size());
}

// minimum RMSD over rigid motions
inline double min_rmsd(std::vector<V3> const &p, std::vector<V3> const &ref, double *gap = nullptr) {
  V3 cp = centroid(p), cr = centroid(ref);
  std::vector<V3> x(p.size()), r(p.size()); double sx = 0, sr = 0;
  for (size_t i = 0; i < p.size(); i++) { x[i] = p[i] - cp; r[i] = ref[i] - cr; sx += x[i].dot(x[i]); sr += r[i].dot(r[i]); }
  M3 R; double lam = optimal_rotation(x, r, R, gap);
  double msd = (sx + sr - 2.0 * lam) / (double)p.size();
  return std::sqrt(std::max(0.0, msd));
}

// positions after optimal superposition on ref (centred, rotated, moved to the centroid of ref)
inline std::vector<V3> superpose(std::vector<V3> const &p, std::vector<V3> const &ref, M3 *Rout = nullptr) {
  V3 cp = centroid(p), cr = centroid(ref);
  std::vector<V3> x(p.size()), r(p.size());
  for (size_t i = 0; i < p.size(); i++) { x[i] = p[i] - cp; r[i] = ref[i] - cr; }
  M3 R; optimal_rotation(x, r, R);
  if (Rout) *Rout = R;
  for (size_t i = 0; i < p.size(); i++) x[i] = R.apply(x[i]) + cr;
  return x;
}

}  // namespace sim
