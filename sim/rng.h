// Seeded PRNG streams.  One integer (VERIF_SEED) decides everything.
#pragma once
#include <cstdint>
#include <cmath>
#include <string>
#include <vector>

namespace sim {

inline uint64_t splitmix64(uint64_t &x) {
  uint64_t z = (x += 0x9e3779b97f4a7c15ULL);
  z = (z ^ (z >> 30)) * 0xbf58476d1ce4e5b9ULL;
  z = (z ^ (z >> 27)) * 0x94d049bb133111ebULL;
  return z ^ (z >> 31);
}

inline uint64_t mix64(uint64_t a, uint64_t b) {
  uint64_t x = a * 0x9e3779b97f4a7c15ULL + b + 0x632be59bd9b4e019ULL;
  return splitmix64(x);
}

struct Rng {
  uint64_t s[4];
  explicit Rng(uint64_t seed = 1, uint64_t stream = 0) { reseed(seed, stream); }
  void reseed(uint64_t seed, uint64_t stream = 0) {
    uint64_t x = mix64(seed, stream);
    for (auto &v : s) v = splitmix64(x);
  }
  static uint64_t rotl(uint64_t x, int k) { return (x << k) | (x >> (64 - k)); }
  uint64_t next() {
    uint64_t r = rotl(s[1] * 5, 7) * 9, t = s[1] << 17;
    s[2] ^= s[0]; s[3] ^= s[1]; s[1] ^= s[2]; s[0] ^= s[3]; s[2] ^= t; s[3] = rotl(s[3], 45);
    return r;
  }
  // uniform integer in [0, n)
  uint64_t below(uint64_t n) { return n ? next() % n : 0; }
  // integer in [lo, hi]
  long range(long lo, long hi) { return hi <= lo ? lo : lo + (long)below((uint64_t)(hi - lo + 1)); }
  double unit() { return (double)(next() >> 11) * (1.0 / 9007199254740992.0); }
  double uniform(double lo, double hi) { return lo + (hi - lo) * unit(); }
  bool chance(double p) { return unit() < p; }
  template <class T> T const &pick(std::vector<T> const &v) { return v[below(v.size())]; }
  double gauss() {
    double u1 = unit(), u2 = unit();
    if (u1 < 1e-300) u1 = 1e-300;
    return std::sqrt(-2.0 * std::log(u1)) * std::cos(6.283185307179586 * u2);
  }
};

// Counter-based gaussian: a pure function of (seed, walker, step, call index)
inline double counter_gauss(uint64_t seed, uint64_t walker, uint64_t step, uint64_t idx) {
  uint64_t k = mix64(mix64(mix64(seed, walker), step), idx);
  Rng r(k, 77);
  return r.gauss();
}

inline uint64_t fnv1a(const void *p, size_t n, uint64_t h = 1469598103934665603ULL) {
  const unsigned char *c = (const unsigned char *)p;
  for (size_t i = 0; i < n; i++) { h ^= c[i]; h *= 1099511628211ULL; }
  return h;
}
inline uint64_t fnv_str(std::string const &s, uint64_t h = 1469598103934665603ULL) { return fnv1a(s.data(), s.size(), h); }
inline uint64_t fnv_u64(uint64_t v, uint64_t h) { return fnv1a(&v, 8, h); }
inline uint64_t fnv_dbl(double v, uint64_t h) { return fnv1a(&v, 8, h); }

}  // namespace sim
