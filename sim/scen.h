// Scenario building blocks: collective-variable and bias configuration text
// generated from seeded knobs, plus an independent evaluation of the simple
// variable kinds (used to place grid boundaries relative to the trajectory).
#pragma once
#include <string>
#include <vector>
#include "json.h"
#include "rng.h"
#include "traj.h"

namespace sim {

struct CvSpec {
  std::string name = "one";
  std::string kind = "distance";          // distance | distanceZ | distanceXY | angle | dihedral | ...
  std::vector<std::vector<int>> groups;   // 0-based atom ids
  double width = 0.5;
  bool has_bounds = false;
  double lower = 0, upper = 0;
  bool expand = false;
  std::string extra;        // extra lines inside colvar { }
  std::string comp_extra;   // extra lines inside the component block
  std::vector<V3> ref, vec; // rmsd / eigenvector: reference positions and (raw) vector, as written in the configuration
  bool normalize = false;   // eigenvector: normalizeVector
  double coeff0 = 1, coeff1 = 1;   // combo: coefficients of the two distance components (groups 0,1 and 2,3)
  bool difference = false;  // eigenvector: differenceVector (vec holds positions; the vector is their fitted difference from ref)
  std::vector<V3> centred_vec() const;   // the vector as the library uses it (centred, normalised on request)
  bool periodic() const { return kind == "dihedral"; }
  bool can_eval() const { return kind == "distance" || kind == "distanceZ" || kind == "distanceXY" || kind == "angle" || kind == "dihedral" || kind == "gyration" || kind == "combo" || ((kind == "rmsd" || kind == "eigenvector") && !ref.empty()); }
  double eval(TrajModel const &m, long step) const;
  std::string config() const;
  int ngroups() const;
};

// choose groups of 1..3 atoms each, disjoint
std::vector<std::vector<int>> pick_groups(Rng &r, int natoms, int ngroups, int max_size = 3);
CvSpec make_cv(Rng &r, int natoms, std::string const &kind, std::string const &name);
// value range over steps [0, T]
void cv_range(CvSpec const &cv, TrajModel const &m, long T, double &lo, double &hi);
// set width/lower/upper so that the grid has nbins bins and covers `cover` (0..1.3) of the range
void place_grid(CvSpec &cv, TrajModel const &m, long T, Rng &r, int nbins, double cover);

std::string global_config(int traj_freq, int restart_freq, bool smp, std::string const &extra = "");
std::string num(double v);
std::string join_names(std::vector<CvSpec> const &cvs);

// whitespace tokeniser + tolerant comparison of two state texts
struct StateDiff { bool same = true; size_t index = 0; std::string a, b, context; };
StateDiff compare_state_text(std::string const &a, std::string const &b, double rtol, double atol);

}  // namespace sim

namespace sim {

// Bias catalogue shared by the properties.
struct BiasSpec {
  std::string tmpl, name, config;
  bool total_force = false;     // reads total forces (ABF)
  bool grid = false;            // needs boundaries/width on its variables
  bool history = false;         // history dependent
};
// templates that act on scalar variables
std::vector<std::string> const &bias_templates();
// ncv: how many variables the template wants (1..maxcv)
int bias_template_max_cv(std::string const &tmpl);
bool bias_template_needs_grid(std::string const &tmpl);
bool bias_template_needs_total_force(std::string const &tmpl);
// ranges: [lo,hi] of each variable over the run (for centres, walls ...)
BiasSpec make_bias(std::string const &tmpl, Rng &r, std::vector<CvSpec> const &cvs,
                   std::vector<std::pair<double, double>> const &ranges, long T, std::string const &name);

}  // namespace sim
