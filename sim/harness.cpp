#include "harness.h"
#include "rng.h"

#include <algorithm>
#include <cerrno>
#include <chrono>
#include <csignal>
#include <cstdio>
#include <cstdlib>
#include <cstring>
#include <fcntl.h>
#include <poll.h>
#include <sys/stat.h>
#include <sys/wait.h>
#include <unistd.h>

extern "C" {
// classify sanitizer hits by exit code; leaks are expected (abandoned walker instances)
__attribute__((used, visibility("default"))) const char *__asan_default_options() {
  return "exitcode=77:detect_leaks=0:abort_on_error=0:handle_sigfpe=1:allocator_may_return_null=1:max_allocation_size_mb=256:detect_stack_use_after_return=0";
}
__attribute__((used, visibility("default"))) const char *__ubsan_default_options() {
  return "print_stacktrace=1:halt_on_error=1:exitcode=77";
}
__attribute__((used, visibility("default"))) const char *__tsan_default_options() {
  return "exitcode=0:halt_on_error=0:report_signal_unsafe=0:second_deadlock_stack=1:history_size=4";
}
}

#if defined(FLAVOUR_tsan)
#define FLAVOUR_NAME "tsan"
#elif defined(FLAVOUR_plain)
#define FLAVOUR_NAME "plain"
#else
#define FLAVOUR_NAME "asan"
#endif

namespace sim {

static double now_s() {
  using namespace std::chrono;
  return duration<double>(steady_clock::now().time_since_epoch()).count();
}

J RunResult::to_json() const {
  J j = J::obj();
  j["violation"] = violation; j["oracle"] = oracle; j["signature"] = signature; j["detail"] = detail; j["features"] = features;
  j["fingerprint"] = std::to_string(fingerprint); j["nontrivial"] = nontrivial; j["class_hash"] = std::to_string(class_hash);
  J c = J::obj();
  for (auto &kv : counters) c[kv.first] = kv.second;
  j["counters"] = c;
  return j;
}
RunResult RunResult::from_json(J const &j) {
  RunResult r;
  r.violation = j.at("violation").as_bool(); r.oracle = j.at("oracle").as_str(); r.signature = j.at("signature").as_str();
  r.detail = j.at("detail").as_str(); r.features = j.at("features").as_str(); r.fingerprint = strtoull(j.at("fingerprint").as_str("0").c_str(), nullptr, 10);
  r.nontrivial = j.at("nontrivial").as_bool(); r.class_hash = strtoull(j.at("class_hash").as_str("0").c_str(), nullptr, 10);
  for (auto &kv : j.at("counters").o) r.counters[kv.first] = kv.second.as_int();
  return r;
}

std::vector<Property> &all_properties() { static std::vector<Property> *v = new std::vector<Property>(); return *v; }
void register_property(Property const &p) { all_properties().push_back(p); }
Property *find_property(std::string const &id) {
  for (auto &p : all_properties()) if (p.id == id) return &p;
  return nullptr;
}

uint64_t hash_plan_shape(J const &plan) {
  uint64_t h = fnv_str(plan.at("scenario").at("template").as_str(), 1469598103934665603ULL);
  for (auto const &op : plan.at("ops").a) {
    h = fnv_str(op.at("op").as_str(), h);
    h = fnv_u64((uint64_t)op.at("w").as_int(), h);
    for (auto const &f : op.at("faults").a) h = fnv_str(f.at("k").as_str(), h);
  }
  return h;
}

// ------------------------------------------------------------------------------------------------
static std::string g_root = "/verif";
static std::string logs_dir() { return g_root + "/build/logs"; }

static void mkdirs() {
  mkdir((g_root + "/build").c_str(), 0755);
  mkdir(logs_dir().c_str(), 0755);
  mkdir((g_root + "/replays").c_str(), 0755);
  mkdir((g_root + "/evidence").c_str(), 0755);
}

static std::string tail_of_file(std::string const &path, size_t maxb = 65536) {
  std::string s;
  if (!read_file(path, s)) return "";
  if (s.size() > maxb) s = s.substr(s.size() - maxb);
  return s;
}

// turn a sanitizer / signal death into a stable signature
static std::string classify_death(int status, std::string const &errtxt) {
  std::string sig;
  size_t p = errtxt.find("SUMMARY: ");
  if (p != std::string::npos) {
    size_t e = errtxt.find('\n', p);
    std::string line = errtxt.substr(p + 9, e == std::string::npos ? std::string::npos : e - p - 9);
    // "<San>: <kind> <file:line[:col]> in <func(args)>"
    std::string san, kind, loc, func;
    size_t c = line.find(": ");
    if (c != std::string::npos) { san = line.substr(0, c); line = line.substr(c + 2); }
    size_t sp = line.find(' ');
    kind = line.substr(0, sp);
    if (sp != std::string::npos) {
      std::string rest = line.substr(sp + 1);
      size_t in = rest.find(" in ");
      loc = rest.substr(0, in);
      if (in != std::string::npos) func = rest.substr(in + 4);
    }
    size_t par = func.find('(');
    if (par != std::string::npos) func = func.substr(0, par);
    size_t col = loc.find(':');
    std::string file = loc.substr(0, col);
    size_t sl = file.rfind('/');
    if (sl != std::string::npos) file = file.substr(sl + 1);
    // a report located in the runtime or the standard library is attributed to the first frame inside the library under test
    if (file.find("asan_") == 0 || file.find("stl_") == 0 || file.find("sanitizer") != std::string::npos || file.find(".tcc") != std::string::npos || file.find("new_allocator") != std::string::npos) {
      size_t fr = errtxt.find("/repo/src/");
      if (fr != std::string::npos) {
        size_t ls = errtxt.rfind('\n', fr); ls = ls == std::string::npos ? 0 : ls + 1;
        std::string frame = errtxt.substr(ls, errtxt.find('\n', fr) - ls);
        size_t in = frame.find(" in "), f2 = frame.find("/repo/src/");
        std::string fn = in != std::string::npos ? frame.substr(in + 4, frame.find_first_of("( ", in + 4) - in - 4) : "";
        std::string fl = frame.substr(f2 + 10); fl = fl.substr(0, fl.find(':'));
        file = fl; func = fn;
      }
    }
    sig = san + ":" + kind + ":" + file + ":" + func;
    // UBSan: add the message class
    size_t re = errtxt.find("runtime error: ");
    if (re != std::string::npos) {
      size_t ee = errtxt.find('\n', re);
      std::string msg = errtxt.substr(re + 15, ee - re - 15);
      std::string cls;
      for (char ch : msg) { if (isdigit((unsigned char)ch) || ch == '-' || ch == '.') continue; cls += ch; }
      if (cls.size() > 60) cls.resize(60);
      sig += ":" + cls;
    }
    return sig;
  }
  {
    // UBSan without a summary line: "<file>:<line>:<col>: runtime error: <message>" followed by the stack
    size_t re = errtxt.find(": runtime error: ");
    if (re != std::string::npos) {
      size_t ls = errtxt.rfind('\n', re); ls = ls == std::string::npos ? 0 : ls + 1;
      std::string loc = errtxt.substr(ls, re - ls);
      size_t col = loc.find(':'); std::string file = loc.substr(0, col);
      size_t sl = file.rfind('/'); if (sl != std::string::npos) file = file.substr(sl + 1);
      size_t ee = errtxt.find('\n', re);
      std::string msg = errtxt.substr(re + 17, ee == std::string::npos ? std::string::npos : ee - re - 17), cls, func;
      for (char ch : msg) { if (isdigit((unsigned char)ch) || ch == '-' || ch == '.') continue; cls += ch; }
      if (cls.size() > 60) cls.resize(60);
      size_t f0 = errtxt.find("#0 ", re);
      if (f0 != std::string::npos) { size_t in = errtxt.find(" in ", f0), fe = errtxt.find_first_of("(\n ", in == std::string::npos ? f0 : in + 4); if (in != std::string::npos && in < errtxt.find('\n', f0)) func = errtxt.substr(in + 4, fe - in - 4); }
      return "UBSan:" + file + ":" + func + ":" + cls;
    }
  }
  if (errtxt.find("terminate called") != std::string::npos) {
    size_t q = errtxt.find("terminate called");
    size_t e = errtxt.find('\n', q);
    size_t e2 = errtxt.find('\n', e + 1);
    std::string l1 = errtxt.substr(q, e - q);
    std::string l2 = e2 != std::string::npos ? errtxt.substr(e + 1, e2 - e - 1) : "";
    std::string cls;
    for (char ch : l1 + " " + l2) { if (isdigit((unsigned char)ch)) continue; cls += ch; }
    if (cls.size() > 120) cls.resize(120);
    return "uncaught:" + cls;
  }
  if (WIFSIGNALED(status)) return std::string("signal:") + strsignal(WTERMSIG(status));
  if (WIFEXITED(status)) return "exit:" + std::to_string(WEXITSTATUS(status));
  return "death:unknown";
}

static Property *g_prop = nullptr;

static void child_setup_stderr(std::string const &path) {
  int fd = open(path.c_str(), O_WRONLY | O_CREAT | O_TRUNC, 0644);
  if (fd >= 0) { dup2(fd, 2); close(fd); }
}

// Execute one plan in a fresh child process.
static RunResult exec_plan_in_child(Property &P, J const &plan, int timeout_s, std::string const &tag) {
  int pfd[2];
  if (pipe(pfd) != 0) { perror("pipe"); exit(2); }
  std::string errpath = logs_dir() + "/" + P.id + "-" + tag + ".err";
  fflush(stdout);
  pid_t pid = fork();
  if (pid < 0) { perror("fork"); exit(2); }
  if (pid == 0) {
    close(pfd[0]);
    child_setup_stderr(errpath);
    alarm((unsigned)timeout_s + 5);
    RunResult r = P.run(plan);
    std::string out = r.to_json().str() + "\n";
    size_t off = 0;
    while (off < out.size()) { ssize_t k = ::write(pfd[1], out.data() + off, out.size() - off); if (k <= 0) break; off += (size_t)k; }
    _exit(0);
  }
  close(pfd[1]);
  std::string buf;
  double t0 = now_s();
  bool timed_out = false;
  for (;;) {
    struct pollfd pf{pfd[0], POLLIN, 0};
    int left = (int)((timeout_s - (now_s() - t0)) * 1000);
    if (left <= 0) { timed_out = true; break; }
    int pr = poll(&pf, 1, left);
    if (pr < 0) { if (errno == EINTR) continue; break; }
    if (pr == 0) { timed_out = true; break; }
    char tmp[65536];
    ssize_t k = ::read(pfd[0], tmp, sizeof tmp);
    if (k <= 0) break;
    buf.append(tmp, (size_t)k);
  }
  close(pfd[0]);
  if (timed_out) kill(pid, SIGKILL);
  int status = 0;
  waitpid(pid, &status, 0);
  RunResult r;
  if (timed_out) { r.violation = true; r.oracle = "hang"; r.signature = "timeout"; r.detail = "no result within " + std::to_string(timeout_s) + " s"; if (P.plan_features) r.features = P.plan_features(plan); return r; }
  J j;
  if (WIFEXITED(status) && WEXITSTATUS(status) == 0 && J::parse(buf, j) && j.is_obj()) return RunResult::from_json(j);
  std::string err = tail_of_file(errpath);
  r.violation = true; r.oracle = "crash"; r.signature = classify_death(status, err);
  size_t p = err.find("ERROR: ");
  if (p == std::string::npos) p = err.find("runtime error");
  r.detail = p != std::string::npos ? err.substr(p, 600) : err.substr(err.size() > 600 ? err.size() - 600 : 0);
  if (P.plan_features) r.features = P.plan_features(plan);
  return r;
}

// ------------------------------------------------------------------------------------------------
// generic shrinking candidates
static void generic_candidates(J const &plan, std::vector<J> &out) {
  J const &ops = plan.at("ops");
  size_t n = ops.size();
  // drop chunks of ops (halves, quarters, ..., singles)
  for (size_t chunk = n / 2; chunk >= 1; chunk /= 2) {
    for (size_t start = 0; start + chunk <= n; start += chunk) {
      J c = plan; J &o = c["ops"];
      o.a.erase(o.a.begin() + (long)start, o.a.begin() + (long)(start + chunk));
      out.push_back(std::move(c));
    }
    if (chunk == 1) break;
  }
  // drop faults
  for (size_t i = 0; i < n; i++) {
    J const &f = ops.a[i].at("faults");
    for (size_t k = 0; k < f.size(); k++) {
      J c = plan; J &ff = c["ops"].a[i]["faults"];
      ff.a.erase(ff.a.begin() + (long)k);
      out.push_back(std::move(c));
    }
  }
  // schedule: drop, truncate, zero
  if (plan.has("sched") && plan.at("sched").size() > 0) {
    { J c = plan; c["sched"] = J::arr(); out.push_back(std::move(c)); }
    size_t m = plan.at("sched").size();
    { J c = plan; c["sched"].a.resize(m / 2); out.push_back(std::move(c)); }
    for (size_t k = 0; k < m && k < 64; k++) {
      if (plan.at("sched").a[k].as_int() != 0) { J c = plan; c["sched"].a[k] = J(0); out.push_back(std::move(c)); }
    }
  }
  // reduce step counts
  for (size_t i = 0; i < n; i++) {
    long v = (long)ops.a[i].at("n").as_int(-1);
    if (v > 1) {
      for (long nv : {v / 2, v - 1, 1L}) {
        if (nv >= 1 && nv < v) { J c = plan; c["ops"].a[i]["n"] = J((long long)nv); out.push_back(std::move(c)); }
      }
    }
  }
}

// Execute several plans concurrently, each in its own fresh child process.
static std::vector<RunResult> exec_many(Property &P, std::vector<J> const &plans, size_t from, size_t count, int timeout_s) {
  struct Slot { pid_t pid; int fd; std::string buf; bool open; std::string errpath; };
  std::vector<Slot> sl(count);
  fflush(stdout);
  for (size_t k = 0; k < count; k++) {
    int pfd[2];
    if (pipe(pfd) != 0) { perror("pipe"); exit(2); }
    sl[k].errpath = logs_dir() + "/" + P.id + "-par" + std::to_string(k) + ".err";
    pid_t pid = fork();
    if (pid < 0) { perror("fork"); exit(2); }
    if (pid == 0) {
      close(pfd[0]);
      for (size_t q = 0; q < k; q++) close(sl[q].fd);
      child_setup_stderr(sl[k].errpath);
      alarm((unsigned)timeout_s + 5);
      RunResult r = P.run(plans[from + k]);
      std::string out = r.to_json().str() + "\n";
      size_t off = 0;
      while (off < out.size()) { ssize_t w = ::write(pfd[1], out.data() + off, out.size() - off); if (w <= 0) break; off += (size_t)w; }
      _exit(0);
    }
    close(pfd[1]);
    sl[k].pid = pid; sl[k].fd = pfd[0]; sl[k].open = true;
  }
  double t0 = now_s();
  bool timed_out = false;
  for (;;) {
    std::vector<struct pollfd> pf; std::vector<size_t> idx;
    for (size_t k = 0; k < count; k++) if (sl[k].open) { pf.push_back({sl[k].fd, POLLIN, 0}); idx.push_back(k); }
    if (pf.empty()) break;
    int left = (int)((timeout_s - (now_s() - t0)) * 1000);
    if (left <= 0) { timed_out = true; break; }
    int pr = poll(pf.data(), pf.size(), left);
    if (pr < 0) { if (errno == EINTR) continue; break; }
    if (pr == 0) { timed_out = true; break; }
    for (size_t q = 0; q < pf.size(); q++) {
      if (!(pf[q].revents & (POLLIN | POLLHUP | POLLERR))) continue;
      char tmp[65536];
      ssize_t n = ::read(pf[q].fd, tmp, sizeof tmp);
      if (n <= 0) { close(pf[q].fd); sl[idx[q]].open = false; }
      else sl[idx[q]].buf.append(tmp, (size_t)n);
    }
  }
  std::vector<RunResult> out(count);
  for (size_t k = 0; k < count; k++) {
    bool hung = sl[k].open;
    if (sl[k].open) { kill(sl[k].pid, SIGKILL); close(sl[k].fd); }
    int status = 0;
    waitpid(sl[k].pid, &status, 0);
    RunResult r;
    J j;
    if (hung && timed_out) { r.violation = true; r.oracle = "hang"; r.signature = "timeout"; }
    else if (WIFEXITED(status) && WEXITSTATUS(status) == 0 && J::parse(sl[k].buf, j) && j.is_obj()) r = RunResult::from_json(j);
    else { r.violation = true; r.oracle = "crash"; r.signature = classify_death(status, tail_of_file(sl[k].errpath)); }
    if (r.violation && (r.oracle == "crash" || r.oracle == "hang") && P.plan_features) r.features = P.plan_features(plans[from + k]);
    out[k] = r;
  }
  return out;
}

static double g_shrink_total_budget = 150.0, g_shrink_spent = 0.0, g_shrink_group_budget = 40.0;
static J shrink_plan(Property &P, J plan, std::string const &cls, int &execs) {
  double t0 = now_s();
  bool progress = true;
  const size_t width = 16;
  double limit = std::min(g_shrink_group_budget, std::max(0.0, g_shrink_total_budget - g_shrink_spent));
  struct Spent { double t0; ~Spent() { g_shrink_spent += now_s() - t0; } } spent{t0};
  while (progress && execs < 1500 && now_s() - t0 < limit) {
    progress = false;
    std::vector<J> cands;
    generic_candidates(plan, cands);
    if (P.shrink_more) P.shrink_more(plan, cands);
    for (size_t i = 0; i < cands.size() && !progress; i += width) {
      if (execs >= 1500 || now_s() - t0 > limit) break;
      size_t cnt = std::min(width, cands.size() - i);
      std::vector<RunResult> rs = exec_many(P, cands, i, cnt, P.run_timeout_s);
      execs += (int)cnt;
      for (size_t k = 0; k < cnt; k++)
        if (rs[k].violation && rs[k].cls(P.id) == cls) { plan = cands[i + k]; progress = true; break; }
    }
  }
  return plan;
}

// ------------------------------------------------------------------------------------------------
// A listed finding: identified by oracle(s), a signature prefix and tokens that the
// feature summary of the *minimised* failing plan must contain.
struct Known {
  std::string property, id, what;
  std::vector<std::string> oracles, features_all, signature_prefixes;
  J plan;
};
static std::vector<Known> load_known(std::string const &prop) {
  std::vector<Known> v;
  std::string txt;
  if (!read_file(g_root + "/known_findings.json", txt)) return v;
  J j;
  if (!J::parse(txt, j)) { fprintf(stderr, "known_findings.json does not parse\n"); exit(2); }
  for (auto const &f : j.at("findings").a) {
    if (f.at("property").as_str() != prop) continue;
    Known k;
    k.property = prop; k.id = f.at("id").as_str(); k.what = f.at("what").as_str();
    if (f.at("signature_prefix").t == J::STR) k.signature_prefixes.push_back(f.at("signature_prefix").as_str());
    for (auto const &o : f.at("signature_prefix").a) k.signature_prefixes.push_back(o.as_str());
    if (f.at("oracle").t == J::STR) k.oracles.push_back(f.at("oracle").as_str());
    for (auto const &o : f.at("oracle").a) k.oracles.push_back(o.as_str());
    for (auto const &o : f.at("features_all").a) k.features_all.push_back(o.as_str());
    k.plan = f.at("plan");
    v.push_back(k);
  }
  return v;
}
static bool known_matches(Known const &k, RunResult const &r) {
  if (std::find(k.oracles.begin(), k.oracles.end(), r.oracle) == k.oracles.end()) return false;
  {
    bool any = k.signature_prefixes.empty();
    for (auto const &p : k.signature_prefixes) if (r.signature.compare(0, p.size(), p) == 0) any = true;
    if (!any) return false;
  }
  // feature tokens are separated by ',' and '+'
  std::vector<std::string> toks;
  std::string cur;
  for (char ch : r.features + "+") { if (ch == ',' || ch == '+') { if (!cur.empty()) toks.push_back(cur); cur.clear(); } else cur += ch; }
  for (auto const &need : k.features_all) if (std::find(toks.begin(), toks.end(), need) == toks.end()) return false;
  return true;
}
static Known *match_known(std::vector<Known> &ks, RunResult const &r) {
  for (auto &k : ks) if (known_matches(k, r)) return &k;
  return nullptr;
}

// ------------------------------------------------------------------------------------------------
struct Worker {
  pid_t pid = -1;
  int to = -1, from = -1;
  bool busy = false;
  uint64_t seed = 0;
  double t_start = 0;
  std::string buf;
  int idx = 0;
  long done = 0;
};

static void worker_loop(Property &P, int rfd, int wfd, bool thorough) {
  FILE *in = fdopen(rfd, "r");
  char line[256];
  while (fgets(line, sizeof line, in)) {
    uint64_t seed = strtoull(line, nullptr, 10);
    J plan = P.gen(seed, thorough);
    RunResult r = P.run(plan);
    // every run op after the first starts with a repeated step (run boundary): counted for all properties
    { long runs = 0; if (plan.has("ops")) for (auto const &op : plan.at("ops").a) if (op.at("op").as_str() == "run") runs++; if (runs > 1) r.counters["fault.run_boundary"] += runs - 1; }
    std::string out = "R " + std::to_string(seed) + " " + r.to_json().str() + "\n";
    size_t off = 0;
    while (off < out.size()) { ssize_t k = ::write(wfd, out.data() + off, out.size() - off); if (k <= 0) _exit(3); off += (size_t)k; }
  }
  _exit(0);
}

static void spawn_worker(Property &P, Worker &w, bool thorough) {
  int a[2], b[2];
  if (pipe(a) || pipe(b)) { perror("pipe"); exit(2); }
  fflush(stdout);
  pid_t pid = fork();
  if (pid < 0) { perror("fork"); exit(2); }
  if (pid == 0) {
    close(a[1]); close(b[0]);
    child_setup_stderr(logs_dir() + "/" + P.id + "-w" + std::to_string(w.idx) + ".err");
    worker_loop(P, a[0], b[1], thorough);
  }
  close(a[0]); close(b[1]);
  w.pid = pid; w.to = a[1]; w.from = b[0]; w.busy = false; w.buf.clear(); w.done = 0;
}

static void kill_worker(Worker &w) {
  if (w.pid > 0) { close(w.to); close(w.from); kill(w.pid, SIGKILL); int st; waitpid(w.pid, &st, 0); w.pid = -1; }
}

struct Batch {
  long evaluations = 0;
  std::set<uint64_t> classes;
  std::map<std::string, long long> counters;
  std::vector<std::pair<uint64_t, RunResult>> violations;   // seed, result
  std::vector<uint64_t> crashed_seeds;                      // worker died / hung on these
  std::vector<std::string> crash_sigs;
  long worker_restarts = 0;
  uint64_t sample_seed[3] = {0, 0, 0};
  long long best_faults = -1;
  bool time_capped = false;
};

static Batch run_batch(Property &P, uint64_t base_seed, long runs, double secs, int jobs, bool thorough, std::vector<Known> *known) {
  Batch B;
  long unknown_violations = 0;
  std::vector<Worker> ws((size_t)jobs);
  for (int i = 0; i < jobs; i++) { ws[(size_t)i].idx = i; spawn_worker(P, ws[(size_t)i], thorough); }
  long next = 0;
  double t0 = now_s();
  auto feed = [&](Worker &w) {
    if (next >= runs) return;
    if (now_s() - t0 > secs) { B.time_capped = true; return; }
    if (unknown_violations + (long)B.crashed_seeds.size() >= 200 || B.violations.size() >= 20000) return;   // enough to report
    uint64_t seed = mix64(base_seed, (uint64_t)next) >> 1;
    next++;
    std::string s = std::to_string(seed) + "\n";
    if (::write(w.to, s.data(), s.size()) != (ssize_t)s.size()) return;
    w.busy = true; w.seed = seed; w.t_start = now_s();
  };
  for (auto &w : ws) feed(w);
  for (;;) {
    std::vector<struct pollfd> pf;
    std::vector<size_t> idx;
    for (size_t i = 0; i < ws.size(); i++) if (ws[i].busy) { pf.push_back({ws[i].from, POLLIN, 0}); idx.push_back(i); }
    if (pf.empty()) break;
    int pr = poll(pf.data(), pf.size(), 1000);
    if (pr < 0 && errno != EINTR) break;
    for (size_t k = 0; k < pf.size(); k++) {
      Worker &w = ws[idx[k]];
      bool dead = false;
      if (pf[k].revents & (POLLIN | POLLHUP)) {
        char tmp[65536];
        ssize_t n = ::read(w.from, tmp, sizeof tmp);
        if (n <= 0) dead = true;
        else {
          w.buf.append(tmp, (size_t)n);
          size_t nl;
          while ((nl = w.buf.find('\n')) != std::string::npos) {
            std::string line = w.buf.substr(0, nl);
            w.buf.erase(0, nl + 1);
            if (line.size() > 2 && line[0] == 'R') {
              size_t sp = line.find(' ', 2);
              uint64_t seed = strtoull(line.c_str() + 2, nullptr, 10);
              J j;
              if (J::parse(line.substr(sp + 1), j)) {
                RunResult r = RunResult::from_json(j);
                B.evaluations++;
                if (r.nontrivial) B.classes.insert(r.class_hash);
                long long nf = 0;
                for (auto &kv : r.counters) { B.counters[kv.first] += kv.second; if (kv.first.compare(0, 6, "fault.") == 0) nf += kv.second; }
                if (B.sample_seed[0] == 0) B.sample_seed[0] = seed;
                else if (B.sample_seed[1] == 0 && r.nontrivial) B.sample_seed[1] = seed;
                if (nf > B.best_faults) { B.best_faults = nf; B.sample_seed[2] = seed; }
                if (r.violation) { B.violations.emplace_back(seed, r); if (!known || !match_known(*known, r)) unknown_violations++; }
              }
              w.busy = false; w.done++;
              // recycle workers periodically (abandoned module instances are leaked on purpose)
              if (w.done >= 1500) { kill_worker(w); spawn_worker(P, w, thorough); }
              feed(w);
            }
          }
        }
      }
      if (!dead && w.busy && now_s() - w.t_start > P.run_timeout_s) {
        B.crashed_seeds.push_back(w.seed); B.crash_sigs.push_back("hang");
        kill_worker(w); B.worker_restarts++; spawn_worker(P, w, thorough); feed(w);
        continue;
      }
      if (dead) {
        int st = 0; waitpid(w.pid, &st, 0);
        close(w.to); close(w.from); w.pid = -1;
        if (w.busy) {
          std::string err = tail_of_file(logs_dir() + "/" + P.id + "-w" + std::to_string(w.idx) + ".err");
          B.crashed_seeds.push_back(w.seed); B.crash_sigs.push_back(classify_death(st, err));
        }
        B.worker_restarts++;
        spawn_worker(P, w, thorough);
        feed(w);
      }
    }
  }
  for (auto &w : ws) kill_worker(w);
  return B;
}

// ------------------------------------------------------------------------------------------------
static long g_transient_timeouts = 0;
static int report_violation(Property &P, uint64_t seed, J const &plan0, RunResult const &first,
                            std::vector<Known> &known, std::set<std::string> &known_printed,
                            std::set<std::string> &reported_fine, int &n_viol) {
  // determinism gate + fresh-process replay
  // (isolated replays get five times the wall-clock budget of a batch run: they decide, so load must not)
  RunResult a = exec_plan_in_child(P, plan0, P.run_timeout_s * P.confirm_timeout_factor, "confirm");
  RunResult b = exec_plan_in_child(P, plan0, P.run_timeout_s * P.confirm_timeout_factor, "confirm");
  // The hang oracle is the only one that reads a real clock (a per-run wall-clock budget).  On a loaded machine a run can exceed
  // it without hanging: a timeout that two isolated replays complete, with identical histories, is not a violation of anything.
  if ((first.oracle == "hang" || first.signature == "hang" || first.signature == "timeout") && !a.violation && !b.violation && a.fingerprint == b.fingerprint) {
    printf("note: seed %llu exceeded its wall-clock budget in the batch but completes in isolation (twice, same history): transient, ignored\n", (unsigned long long)seed);
    g_transient_timeouts++;
    return 0;
  }
  if (!a.violation || !b.violation || a.cls(P.id) != b.cls(P.id) || a.fingerprint != b.fingerprint) {
    printf("HARNESS-NONDETERMINISM property=%s seed=%llu first=%s replayA=%s(%llu) replayB=%s(%llu)\n", P.id.c_str(),
           (unsigned long long)seed, first.cls(P.id).c_str(), a.violation ? a.cls(P.id).c_str() : "pass", (unsigned long long)a.fingerprint,
           b.violation ? b.cls(P.id).c_str() : "pass", (unsigned long long)b.fingerprint);
    return 2;
  }
  std::string cls = a.cls(P.id);
  auto known_hit = [&](RunResult const &r) -> bool {
    if (Known *k = match_known(known, r)) {
      if (!known_printed.count(k->id)) {
        printf("KNOWN-FINDING: property=%s %s [%s: %s/%s]\n", P.id.c_str(), k->what.c_str(), k->id.c_str(), r.oracle.c_str(), r.fine().c_str());
        known_printed.insert(k->id);
      }
      return true;
    }
    return false;
  };
  if (known_hit(a)) return 0;
  int execs = 0;
  J small = shrink_plan(P, plan0, cls, execs);
  RunResult fin = exec_plan_in_child(P, small, P.run_timeout_s * P.confirm_timeout_factor, "final");
  if (!fin.violation || fin.cls(P.id) != cls) {
    printf("HARNESS-NONDETERMINISM property=%s seed=%llu minimised plan does not reproduce %s\n", P.id.c_str(), (unsigned long long)seed, cls.c_str());
    return 2;
  }
  if (known_hit(fin)) return 0;
  std::string fine = fin.oracle + "/" + fin.fine();
  if (reported_fine.count(fine)) return 1;   // same finding already reported from another seed
  reported_fine.insert(fine);
  small["property"] = P.id;
  small["flavour"] = FLAVOUR_NAME;
  small["violation"] = J::obj();
  small["violation"]["class"] = cls; small["violation"]["fine_signature"] = fin.fine(); small["violation"]["oracle"] = fin.oracle;
  small["violation"]["detail"] = fin.detail; small["violation"]["shrink_execs"] = execs;
  std::string path = g_root + "/replays/" + P.id + "-" + std::to_string(seed) + ".json";
  write_file(path, small.str(1) + "\n");
  printf("VIOLATION property=%s replay=%s\n", P.id.c_str(), path.c_str());
  printf("  class: %s\n  fine: %s\n  detail: %s\n  ops: %zu (from %zu), shrink executions: %d\n", cls.c_str(), fin.fine().c_str(), fin.detail.c_str(),
         small.at("ops").size(), plan0.at("ops").size(), execs);
  n_viol++;
  return 1;
}

static std::string g_evidence_name, g_merge_evidence;
static double g_share = 1.0;
static int cmd_check(Property &P, bool thorough, int jobs, long runs_override, double secs_override) {
  mkdirs();
  double t0 = now_s();
  uint64_t base_seed = 20261002;
  if (const char *e = getenv("VERIF_SEED")) base_seed = strtoull(e, nullptr, 10);
  long runs = runs_override > 0 ? runs_override : (thorough ? P.thorough_runs : P.quick_runs);
  double secs = secs_override > 0 ? secs_override : (thorough ? P.thorough_secs : P.quick_secs);
  runs = std::max(1L, (long)((double)runs * g_share)); secs *= g_share;
  if (thorough) { g_shrink_total_budget = 900; g_shrink_group_budget = 120; }
  printf("cvsim check %s tier=%s seed=%llu runs<=%ld secs<=%.0f jobs=%d\n", P.id.c_str(), thorough ? "thorough" : "quick",
         (unsigned long long)base_seed, runs, secs, jobs);
  fflush(stdout);

  std::vector<Known> known = load_known(P.id);
  std::set<std::string> known_printed, reported_fine;
  int rc = 0, n_viol = 0;
  long known_reproduced = 0;
  // replay listed findings first
  for (auto &k : known) {
    if (!k.plan.is_obj()) continue;
    RunResult r = exec_plan_in_child(P, k.plan, P.run_timeout_s, "known");
    if (r.violation && known_matches(k, r)) {
      printf("KNOWN-FINDING: property=%s %s [%s: %s/%s]\n", P.id.c_str(), k.what.c_str(), k.id.c_str(), r.oracle.c_str(), r.fine().c_str());
      known_printed.insert(k.id); known_reproduced++;
    } else if (r.violation) {
      // the stored plan now fails differently: that is a new violation
      J plan = k.plan;
      int x = report_violation(P, 0, plan, r, known, known_printed, reported_fine, n_viol);
      rc = std::max(rc, x);
    } else {
      printf("note: listed finding no longer reproduces: %s\n", k.what.c_str());
    }
  }

  Batch B = run_batch(P, base_seed, runs, secs, jobs, thorough, &known);

  {
    std::map<std::string, int> by_class;
    for (auto &sv : B.violations) by_class[sv.second.cls(P.id)]++;
    for (size_t i = 0; i < B.crash_sigs.size(); i++) by_class["crash/" + B.crash_sigs[i]]++;
    for (auto &kv : by_class) printf("  violating runs by class: %5d  %s\n", kv.second, kv.first.c_str());
    if (getenv("CVSIM_VERBOSE")) {
      std::map<std::string, int> byf;
      for (auto &sv : B.violations) byf[sv.second.cls(P.id) + " | " + sv.second.features]++;
      for (auto &kv : byf) printf("    %5d  %s\n", kv.second, kv.first.c_str());
    }
  }
  // process violations: one per (class, scenario features) group, bounded
  std::set<std::string> seen;
  size_t groups = 0, skipped_groups = 0, known_runs = 0;
  for (auto &sv : B.violations) {
    std::string key = sv.second.cls(P.id) + "|" + sv.second.features;
    if (seen.count(key)) continue;
    seen.insert(key);
    if (Known *k = match_known(known, sv.second)) {
      // the failing run already carries the trigger of a listed finding
      if (!known_printed.count(k->id)) {
        printf("KNOWN-FINDING: property=%s %s [%s: %s/%s]\n", P.id.c_str(), k->what.c_str(), k->id.c_str(), sv.second.oracle.c_str(), sv.second.fine().c_str());
        known_printed.insert(k->id);
      }
      known_runs++;
      continue;
    }
    if (groups >= (size_t)(thorough ? 24 : 10)) { skipped_groups++; continue; }
    groups++;
    J plan = P.gen(sv.first, thorough);
    int x = report_violation(P, sv.first, plan, sv.second, known, known_printed, reported_fine, n_viol);
    rc = std::max(rc, x);
  }
  // dead runs: one group per signature, and within a signature the runs whose plan lacks the trigger of every listed finding
  // (they cannot be one) are examined before, and separately from, those that carry it
  for (int pass = 0; pass < 2; pass++)
  for (size_t i = 0; i < B.crashed_seeds.size(); i++) {
    J plan = P.gen(B.crashed_seeds[i], thorough);
    RunResult r; r.violation = true; r.oracle = "crash"; r.signature = B.crash_sigs[i];
    if (P.plan_features) r.features = P.plan_features(plan);
    bool could_be_known = match_known(known, r) != nullptr;
    if (could_be_known != (pass == 1)) continue;
    std::string key = "crash/" + B.crash_sigs[i] + (could_be_known ? "|carries the trigger of a listed finding" : "");
    if (seen.count(key)) continue;
    seen.insert(key);
    if (groups >= (size_t)(thorough ? 30 : 14)) { skipped_groups++; continue; }
    groups++;
    int x = report_violation(P, B.crashed_seeds[i], plan, r, known, known_printed, reported_fine, n_viol);
    rc = std::max(rc, x);
  }
  if (skipped_groups) printf("note: %zu further violation groups were not minimised in this run\n", skipped_groups);

  double wall = now_s() - t0;
  // evidence
  J ev = J::obj();
  ev["property_id"] = P.id; ev["tier"] = thorough ? "thorough" : "quick"; ev["seed"] = (long long)base_seed; ev["level"] = P.level;
  J cov = J::obj();
  cov["evaluations"] = (long long)B.evaluations;
  cov["distinct_nontrivial"] = (long long)B.classes.size();
  cov["rule"] = P.rule;
  J samples = J::arr();
  std::set<uint64_t> ss;
  for (uint64_t s : B.sample_seed) if (s && !ss.count(s)) { ss.insert(s); samples.push(P.gen(s, thorough)); }
  cov["samples"] = samples;
  if (P.exhaustive) cov["exhaustive"] = true;
  cov["runs_per_hour"] = wall > 0 ? (double)B.evaluations / wall * 3600.0 : 0.0;
  cov["seeds_per_hour"] = wall > 0 ? (double)B.evaluations / wall * 3600.0 : 0.0;
  J faults = J::obj(), probes = J::obj(), other = J::obj();
  for (auto &kv : B.counters) {
    if (kv.first.compare(0, 6, "fault.") == 0) faults[kv.first.substr(6)] = kv.second;
    else if (kv.first.compare(0, 6, "probe.") == 0) probes[kv.first.substr(6)] = kv.second;
    else other[kv.first] = kv.second;
  }
  cov["faults_fired"] = faults; cov["probes"] = probes; cov["totals"] = other;
  cov["simulated_steps"] = B.counters.count("steps") ? B.counters["steps"] : 0;
  cov["simulated_fs"] = B.counters.count("sim_fs") ? B.counters["sim_fs"] : 0;
  cov["distinct_measure"] = "distinct history classes: hash of (scenario template, op-kind sequence, fired-fault sequence, schedule signature), counted only for runs that are non-trivial by the rule";
  cov["transient_timeouts_ignored"] = (long long)g_transient_timeouts;
  cov["worker_restarts"] = (long long)B.worker_restarts;
  cov["time_capped"] = B.time_capped;
  cov["known_findings_reproduced"] = (long long)known_reproduced;
  cov["violating_groups_matching_known_findings"] = (long long)known_runs;
  J real = J::arr(), stub = J::arr();
  for (auto &s : P.real_components) real.push(s);
  for (auto &s : P.stub_components) stub.push(s);
  cov["components_real"] = real; cov["components_stub"] = stub;
  ev["coverage"] = cov;
  J as = J::arr();
  for (auto &s : P.assumptions) as.push(s);
  ev["assumptions"] = as;
  ev["wall_s"] = wall;
  ev["violations"] = n_viol;
  if (!g_merge_evidence.empty()) {
    std::string txt; J other;
    if (read_file(g_merge_evidence, txt) && J::parse(txt, other)) {
      ev["coverage"]["companion_batch"] = other.at("coverage");
      ev["coverage"]["companion_batch"]["wall_s"] = other.at("wall_s");
      ev["coverage"]["companion_batch"]["violations"] = other.at("violations");
      ev["coverage"]["evaluations"] = (long long)(B.evaluations + other.at("coverage").at("evaluations").as_int());
      ev["violations"] = n_viol + (int)other.at("violations").as_int();
      ev["wall_s"] = wall + other.at("wall_s").as_num();
    }
  }
  ev["coverage"]["flavour"] = FLAVOUR_NAME;
  write_file(g_root + "/evidence/" + (g_evidence_name.empty() ? P.id : g_evidence_name) + ".json", ev.str(1) + "\n");

  for (auto &kv : B.counters)
    if (kv.first.compare(0, 6, "probe.") == 0 && kv.second == 0 && thorough) printf("warning: probe %s stayed at zero\n", kv.first.c_str());
  printf("%s %s: %ld runs, %zu distinct non-trivial classes, %d violation(s), %.1f s, %.0f runs/h%s\n", P.id.c_str(),
         thorough ? "thorough" : "quick", B.evaluations, B.classes.size(), n_viol, wall, wall > 0 ? B.evaluations / wall * 3600 : 0,
         B.time_capped ? " (time cap reached)" : "");
  if (B.evaluations == 0) { printf("no runs completed\n"); return 2; }
  return rc;
}

static int cmd_determinism(Property &P, long runs, int jobs, bool thorough) {
  mkdirs();
  uint64_t base_seed = 424242;
  if (const char *e = getenv("VERIF_SEED")) base_seed = strtoull(e, nullptr, 10);
  // run the same seeds in two batches with different worker counts; compare fingerprints
  std::map<uint64_t, uint64_t> fp[2];
  for (int pass = 0; pass < 2; pass++) {
    int j = pass == 0 ? jobs : std::max(1, jobs / 3);
    std::vector<Worker> ws((size_t)j);
    for (int i = 0; i < j; i++) { ws[(size_t)i].idx = i; spawn_worker(P, ws[(size_t)i], thorough); }
    long next = 0;
    auto feed = [&](Worker &w) {
      if (next >= runs) return;
      uint64_t seed = mix64(base_seed, (uint64_t)next) >> 1; next++;
      std::string s = std::to_string(seed) + "\n";
      if (::write(w.to, s.data(), s.size()) < 0) return;
      w.busy = true; w.seed = seed;
    };
    for (auto &w : ws) feed(w);
    for (;;) {
      std::vector<struct pollfd> pf; std::vector<size_t> idx;
      for (size_t i = 0; i < ws.size(); i++) if (ws[i].busy) { pf.push_back({ws[i].from, POLLIN, 0}); idx.push_back(i); }
      if (pf.empty()) break;
      poll(pf.data(), pf.size(), 1000);
      for (size_t k = 0; k < pf.size(); k++) {
        Worker &w = ws[idx[k]];
        if (!(pf[k].revents & (POLLIN | POLLHUP))) continue;
        char tmp[65536]; ssize_t n = ::read(w.from, tmp, sizeof tmp);
        if (n <= 0) { fp[pass][w.seed] = 0xdeadULL; w.busy = false; int st; waitpid(w.pid, &st, 0); close(w.to); close(w.from); w.pid = -1; spawn_worker(P, w, thorough); feed(w); continue; }
        w.buf.append(tmp, (size_t)n);
        size_t nl;
        while ((nl = w.buf.find('\n')) != std::string::npos) {
          std::string line = w.buf.substr(0, nl); w.buf.erase(0, nl + 1);
          size_t sp = line.find(' ', 2);
          uint64_t seed = strtoull(line.c_str() + 2, nullptr, 10);
          J jj; if (J::parse(line.substr(sp + 1), jj)) { RunResult r = RunResult::from_json(jj); fp[pass][seed] = r.fingerprint ^ (r.violation ? fnv_str(r.oracle + r.signature) : 0); }
          w.busy = false; feed(w);
        }
      }
    }
    for (auto &w : ws) kill_worker(w);
  }
  long diff = 0;
  for (auto &kv : fp[0]) if (fp[1][kv.first] != kv.second) { diff++; if (diff < 10) printf("DIFF seed=%llu %llu vs %llu\n", (unsigned long long)kv.first, (unsigned long long)kv.second, (unsigned long long)fp[1][kv.first]); }
  printf("determinism %s: %zu seeds run twice (jobs %d and %d), %ld differ\n", P.id.c_str(), fp[0].size(), jobs, std::max(1, jobs / 3), diff);
  return diff ? 2 : 0;
}

int harness_main(int argc, char **argv) {
  setvbuf(stdout, nullptr, _IOLBF, 0);
  if (const char *r = getenv("VERIF_ROOT")) g_root = r;
  if (argc < 2) {
    fprintf(stderr, "usage: cvsim check <ID> [--tier quick|thorough] [--jobs J] [--runs N] [--secs S]\n"
                    "       cvsim replay <file> | gen <ID> <seed> | run1 <ID> <seed> | determinism <ID> [--runs N] | list\n");
    return 2;
  }
  std::string cmd = argv[1];
  bool thorough = false; int jobs = 16; long runs = 0; double secs = 0;
  if (const char *t = getenv("VERIF_TIER")) thorough = !strcmp(t, "thorough");
  for (int i = 2; i < argc; i++) {
    std::string a = argv[i];
    if (a == "--tier" && i + 1 < argc) thorough = !strcmp(argv[++i], "thorough");
    else if (a == "--jobs" && i + 1 < argc) jobs = atoi(argv[++i]);
    else if (a == "--runs" && i + 1 < argc) runs = atol(argv[++i]);
    else if (a == "--secs" && i + 1 < argc) secs = atof(argv[++i]);
    else if (a == "--evidence-name" && i + 1 < argc) g_evidence_name = argv[++i];
    else if (a == "--merge-evidence" && i + 1 < argc) g_merge_evidence = argv[++i];
    else if (a == "--share" && i + 1 < argc) g_share = atof(argv[++i]);
  }
  if (cmd == "list") { for (auto &p : all_properties()) printf("%s %s\n", p.id.c_str(), p.level.c_str()); return 0; }
  if (cmd == "replay" && argc >= 3) {
    std::string txt; J plan;
    if (!read_file(argv[2], txt) || !J::parse(txt, plan)) { fprintf(stderr, "cannot read plan %s\n", argv[2]); return 2; }
    Property *P = find_property(plan.at("property").as_str());
    if (!P) { fprintf(stderr, "unknown property in plan\n"); return 2; }
    mkdirs();
    RunResult r = exec_plan_in_child(*P, plan, P->run_timeout_s, "replay");
    if (r.violation) {
      printf("VIOLATION property=%s replay=%s\n  class: %s\n  detail: %s\n", P->id.c_str(), argv[2], r.cls(P->id).c_str(), r.detail.c_str());
      return 1;
    }
    printf("replay passed (fingerprint %llu)\n", (unsigned long long)r.fingerprint);
    return 0;
  }
  if (argc < 3) return 2;
  Property *P = find_property(argv[2]);
  if (!P) { fprintf(stderr, "unknown property %s\n", argv[2]); return 2; }
  g_prop = P;
  if (cmd == "check") return cmd_check(*P, thorough, jobs, runs, secs);
  if (cmd == "determinism") return cmd_determinism(*P, runs > 0 ? runs : 300, jobs, thorough);
  if (cmd == "gen" && argc >= 4) { printf("%s\n", P->gen(strtoull(argv[3], nullptr, 10), thorough).str(1).c_str()); return 0; }
  if (cmd == "run1" && argc >= 4) {
    J plan = P->gen(strtoull(argv[3], nullptr, 10), thorough);
    RunResult r = P->run(plan);
    printf("%s\n", r.to_json().str(1).c_str());
    return r.violation ? 1 : 0;
  }
  if (cmd == "runseq" && argc >= 4) {
    // several seeds in ONE process (to look for state leaking from one run into the next)
    for (int i = 3; i < argc; i++) {
      if (argv[i][0] == '-') break;
      J plan; std::string a = argv[i], txt;
      if (a.size() > 5 && a.substr(a.size() - 5) == ".json") { if (!read_file(a, txt) || !J::parse(txt, plan)) return 2; }
      else plan = P->gen(strtoull(argv[i], nullptr, 10), thorough);
      RunResult r = P->run(plan);
      printf("%s %llu %s\n", argv[i], (unsigned long long)(r.fingerprint ^ (r.violation ? fnv_str(r.oracle + r.signature) : 0)), r.violation ? (r.oracle + "/" + r.signature).c_str() : "-");
      if (getenv("CVSIM_VERBOSE")) printf("%s\n", r.to_json().str(1).c_str());
      fflush(stdout);
    }
    return 0;
  }
  if (cmd == "runfile" && argc >= 4) {
    std::string txt; J plan;
    if (!read_file(argv[3], txt) || !J::parse(txt, plan)) return 2;
    RunResult r = P->run(plan);
    printf("%s\n", r.to_json().str(1).c_str());
    return r.violation ? 1 : 0;
  }
  return 2;
}

}  // namespace sim
