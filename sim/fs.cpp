#include "fs.h"
#include "baton.h"
#include "rng.h"

#include <algorithm>
#include <cerrno>
#include <cstdio>
#include <cstring>
#include <fcntl.h>
#include <sys/stat.h>
#include <sys/uio.h>
#include <unistd.h>

namespace sim {

const char *const fs_kind_names[FS_NKINDS] = {"open_r", "open_w", "open_a", "write", "read", "close",
                                              "access", "rename", "remove", "seek", "stat", "flush"};
const char *const fs_fault_names[FF_NKINDS] = {"short_write", "eio", "enospc", "eintr",
                                               "crash_before", "crash_after", "crash_in"};

FS &fs() { static FS *f = new FS(); return *f; }

static const char SIMROOT[] = "/simfs/";

void FS::reset() {
  // real FILE*s of leaked handles are left to the caller; forget the mapping
  handles.clear();
  files.clear();
  chunk_.clear(); faults_.clear(); dead_.clear(); chunk_exempt_suffixes.clear();
  journal_on_ = false; journal_.clear(); base_names_.clear(); base_data_.clear();
  stats = FsStats();
  call_seq = 0;
  next_id_ = 1;
  on_open_read = nullptr;
}

std::shared_ptr<FS::FileObj> FS::new_file() {
  auto f = std::make_shared<FileObj>();
  f->id = next_id_++;
  return f;
}

bool FS::map_path(const char *path, std::string &out) const {
  if (!path) return false;
  if (!strncmp(path, SIMROOT, sizeof(SIMROOT) - 1)) { out = path; }
  else if (path[0] != '/' && active) {
    std::string p(path);
    while (p.size() >= 2 && p[0] == '.' && p[1] == '/') p.erase(0, 2);
    out = std::string(SIMROOT) + "w" + std::to_string(sched_current_group()) + "/" + p;
  } else return false;
  // collapse "//"
  size_t k;
  while ((k = out.find("//")) != std::string::npos) out.erase(k, 1);
  return true;
}

bool FS::exists(std::string const &p) const { return files.count(p) > 0; }
bool FS::get(std::string const &p, std::string &out) const {
  auto it = files.find(p);
  if (it == files.end()) return false;
  out.assign(it->second->bytes.begin(), it->second->bytes.end());
  return true;
}
void FS::put(std::string const &p, std::string const &d) {
  auto f = new_file();
  f->bytes.assign(d.begin(), d.end());
  files[p] = f;
}
void FS::erase(std::string const &p) { files.erase(p); }
std::vector<std::string> FS::list(std::string const &prefix) const {
  std::vector<std::string> r;
  for (auto &kv : files) if (kv.first.compare(0, prefix.size(), prefix) == 0) r.push_back(kv.first);
  return r;
}
FsImage FS::snapshot() const {
  FsImage img;
  for (auto &kv : files) img[kv.first] = std::string(kv.second->bytes.begin(), kv.second->bytes.end());
  return img;
}
void FS::restore(FsImage const &img) {
  files.clear();
  for (auto &kv : img) put(kv.first, kv.second);
}

void FS::set_chunk(int w, size_t c) { chunk_[w] = c; }
size_t FS::chunk_of(int w) const { auto it = chunk_.find(w); return it == chunk_.end() ? 0 : it->second; }
void FS::arm_faults(int w, std::vector<FsFault> const &f) {
  faults_[w] = f;
  for (auto &x : faults_[w]) { x.seen = 0; x.fired = false; x.remaining = 0; }
}
std::vector<FsFault> FS::disarm_faults(int w) {
  std::vector<FsFault> r;
  auto it = faults_.find(w);
  if (it != faults_.end()) { r = it->second; faults_.erase(it); }
  return r;
}
bool FS::is_dead(int w) const { auto it = dead_.find(w); return it != dead_.end() && it->second; }
void FS::set_dead(int w, bool d) { dead_[w] = d; }

FsFault *FS::match_fault(int w, int call, std::string const &path) {
  auto it = faults_.find(w);
  if (it == faults_.end()) return nullptr;
  FsFault *hit = nullptr;
  for (auto &f : it->second) {
    if (f.call >= 0 && f.call != call) continue;
    if (!f.suffix.empty()) {
      if (path.size() < f.suffix.size() || path.compare(path.size() - f.suffix.size(), f.suffix.size(), f.suffix) != 0) continue;
    }
    if (f.kind == FF_EINTR && f.fired && f.remaining > 0) { f.remaining--; if (!hit) hit = &f; continue; }
    if (f.fired) continue;
    if (f.seen++ == f.nth) {
      f.fired = true;
      if (f.kind == FF_EINTR) f.remaining = (int)std::max(0L, f.arg - 1);
      stats.faults_fired[f.kind]++;
      if (!hit) hit = &f;
    }
  }
  return hit;
}

void FS::record(FsMutation &&m) {
  if (!journal_on_) return;
  m.call_seq = call_seq;
  journal_.push_back(std::move(m));
}

void FS::journal_start() {
  journal_on_ = true; journal_.clear(); base_names_.clear(); base_data_.clear();
  for (auto &kv : files) {
    base_names_[kv.first] = kv.second->id;
    base_data_[kv.second->id] = std::string(kv.second->bytes.begin(), kv.second->bytes.end());
  }
}
void FS::journal_stop() { journal_on_ = false; }

FsImage FS::image_at(size_t n, size_t partial) const {
  std::map<std::string, uint64_t> names = base_names_;
  std::map<uint64_t, std::string> data = base_data_;
  auto apply_write = [&](FsMutation const &m, size_t len) {
    std::string &d = data[m.file_id];
    if (d.size() < m.off + len) d.resize(m.off + len, '\0');
    memcpy(&d[m.off], m.data.data(), len);
  };
  for (size_t i = 0; i < n && i < journal_.size(); i++) {
    FsMutation const &m = journal_[i];
    switch (m.k) {
    case FsMutation::CREATE: names[m.path] = m.file_id; if (m.truncate) data[m.file_id].clear(); else (void)data[m.file_id]; break;
    case FsMutation::WRITE: apply_write(m, m.data.size()); break;
    case FsMutation::RENAME: { auto it = names.find(m.path); if (it != names.end()) { uint64_t id = it->second; names.erase(it); names[m.path2] = id; } break; }
    case FsMutation::REMOVE: names.erase(m.path); break;
    }
  }
  if (partial > 0 && n < journal_.size() && journal_[n].k == FsMutation::WRITE)
    apply_write(journal_[n], std::min(partial, journal_[n].data.size()));
  FsImage img;
  for (auto &kv : names) img[kv.first] = data[kv.second];
  return img;
}

}  // namespace sim

// ------------------------------------------------------------------------------------------------
// libc wrappers
// ------------------------------------------------------------------------------------------------
using namespace sim;

extern "C" {
FILE *__real_fopen64(const char *, const char *);
FILE *__real_fopen(const char *, const char *);
int __real_fclose(FILE *);
int __real_fflush(FILE *);
ssize_t __real_read(int, void *, size_t);
ssize_t __real_write(int, const void *, size_t);
ssize_t __real_writev(int, const struct iovec *, int);
off64_t __real_lseek64(int, off64_t, int);
int __real_fstat64(int, struct stat64 *);
int __real_fstat(int, struct stat *);
int __real___fxstat64(int, int, struct stat64 *);
int __real_access(const char *, int);
int __real_rename(const char *, const char *);
int __real_remove(const char *);
int __real_unlink(const char *);
char *__real_getcwd(char *, size_t);
int __real_rand(void);
}

namespace {

inline uint64_t path_hash(std::string const &p, int kind) { return fnv_str(p, 1469598103934665603ULL ^ (uint64_t)kind); }

// returns true when the calling walker is dead (zombie): the call has no effect
bool pre_call(int kind, std::string const &path, int &walker) {
  FS &F = fs();
  walker = sched_current_group();
  sched_yield(Y_FILE, path_hash(path, kind));
  F.call_seq++;
  F.stats.calls[kind]++;
  static const bool trace = getenv("CVSIM_FSTRACE") != nullptr;
  if (trace) fprintf(stderr, "fs %llu w%d %s %s%s\n", (unsigned long long)F.call_seq, walker, fs_kind_names[kind], path.c_str(), F.is_dead(walker) ? " [dead]" : "");
  if (F.is_dead(walker)) { F.stats.zombie_calls++; return true; }
  return false;
}

FILE *sim_fopen(const char *path, const char *mode, std::string const &sp) {
  FS &F = fs();
  bool rd = mode[0] == 'r', wr = mode[0] == 'w', ap = mode[0] == 'a';
  bool plus = strchr(mode, '+') != nullptr;
  int kind = rd ? FS_OPEN_R : (wr ? FS_OPEN_W : FS_OPEN_A);
  int walker;
  bool zombie = pre_call(kind, sp, walker);
  FsFault *flt = zombie ? nullptr : F.match_fault(walker, kind, sp);
  if (flt) {
    switch (flt->kind) {
    case FF_EIO: errno = EIO; return nullptr;
    case FF_ENOSPC: if (!rd) { errno = ENOSPC; return nullptr; } break;
    case FF_EINTR: errno = EINTR; return nullptr;
    case FF_CRASH_BEFORE: F.set_dead(walker, true); zombie = true; break;
    default: break;
    }
  }
  std::shared_ptr<FS::FileObj> f;
  auto it = F.files.find(sp);
  if (rd) {
    if (it == F.files.end()) { errno = ENOENT; return nullptr; }
    f = it->second;
    if (F.on_open_read && !zombie) F.on_open_read(walker, sp, f->id);
  } else if (zombie) {
    f = std::make_shared<FS::FileObj>();  // detached scratch object
  } else {
    FsMutation m; m.k = FsMutation::CREATE; m.path = sp; m.walker = walker; m.call_kind = kind;
    if (it == F.files.end()) { f = F.new_file(); F.files[sp] = f; m.truncate = true; }
    else { f = it->second; if (wr) f->bytes.clear(); m.truncate = wr; }
    m.file_id = f->id;
    F.record(std::move(m));
  }
  FILE *fp = __real_fopen64("/dev/null", rd && !plus ? "r" : "r+");
  if (!fp) return nullptr;
  FS::Handle h;
  h.f = f; h.off = 0; h.append = ap; h.writable = !rd || plus; h.readable = rd || plus; h.owner = walker; h.path = sp;
  F.handles[fileno(fp)] = h;
  if (flt && flt->kind == FF_CRASH_AFTER) F.set_dead(walker, true);
  return fp;
}

ssize_t sim_write(int fd, const void *buf, size_t n) {
  FS &F = fs();
  std::string path = F.handles[fd].path;
  int walker;
  bool zombie = pre_call(FS_WRITE, path, walker);
  auto it = F.handles.find(fd);
  if (it == F.handles.end()) { errno = EBADF; return -1; }
  FS::Handle &h = it->second;
  if (!h.writable) { errno = EBADF; return -1; }
  if (zombie) return (ssize_t)n;
  size_t durable = n;
  bool die_after = false;
  FsFault *flt = F.match_fault(walker, FS_WRITE, path);
  if (flt) {
    switch (flt->kind) {
    case FF_EIO: errno = EIO; return -1;
    case FF_ENOSPC: errno = ENOSPC; return -1;
    case FF_EINTR: errno = EINTR; return -1;
    case FF_SHORT: if (n > 1) { n = (size_t)std::max(1L, std::min((long)n - 1, flt->arg)); durable = n; } break;
    case FF_CRASH_BEFORE: F.set_dead(walker, true); return (ssize_t)n;
    case FF_CRASH_IN: durable = (size_t)std::max(0L, std::min((long)n, flt->arg)); die_after = true; break;
    case FF_CRASH_AFTER: die_after = true; break;
    default: break;
    }
  }
  size_t chunk = F.chunk_of(walker);
  for (auto const &sx : F.chunk_exempt_suffixes) if (path.size() >= sx.size() && path.compare(path.size() - sx.size(), sx.size(), sx) == 0) chunk = 0;
  if (!die_after && chunk && n > chunk) { n = chunk; durable = n; F.stats.chunked_writes++; }
  size_t pos = h.append ? h.f->bytes.size() : h.off;
  if (durable) {
    if (h.f->bytes.size() < pos + durable) h.f->bytes.resize(pos + durable, 0);
    memcpy(h.f->bytes.data() + pos, buf, durable);
    FsMutation m; m.k = FsMutation::WRITE; m.path = path; m.off = pos; m.file_id = h.f->id; m.walker = walker; m.call_kind = FS_WRITE;
    m.data.assign((const unsigned char *)buf, (const unsigned char *)buf + durable);
    F.record(std::move(m));
    F.stats.bytes_written += durable;
  }
  h.off = pos + n;
  if (die_after) F.set_dead(walker, true);
  return (ssize_t)n;
}

}  // namespace

extern "C" {

FILE *__wrap_fopen64(const char *path, const char *mode) {
  std::string sp;
  if (!fs().map_path(path, sp)) return __real_fopen64(path, mode);
  return sim_fopen(path, mode, sp);
}
FILE *__wrap_fopen(const char *path, const char *mode) {
  std::string sp;
  if (!fs().map_path(path, sp)) return __real_fopen(path, mode);
  return sim_fopen(path, mode, sp);
}

int __wrap_fclose(FILE *fp) {
  FS &F = fs();
  if (fp) {
    int fd = fileno(fp);
    auto it = F.handles.find(fd);
    if (it != F.handles.end()) {
      int walker; std::string p = it->second.path;
      pre_call(FS_CLOSE, p, walker);
      F.handles.erase(fd);
    }
  }
  return __real_fclose(fp);
}

int __wrap_fflush(FILE *fp) {
  if (fp) {
    FS &F = fs();
    auto it = F.handles.find(fileno(fp));
    if (it != F.handles.end()) { F.stats.calls[FS_FLUSH]++; return 0; }
  }
  return __real_fflush(fp);
}

ssize_t __wrap_read(int fd, void *buf, size_t n) {
  FS &F = fs();
  if (F.handles.empty() || !F.handles.count(fd)) return __real_read(fd, buf, n);
  int walker; std::string p = F.handles[fd].path;
  pre_call(FS_READ, p, walker);
  auto it = F.handles.find(fd);
  if (it == F.handles.end()) { errno = EBADF; return -1; }
  FS::Handle &h = it->second;
  FsFault *flt = F.match_fault(walker, FS_READ, p);
  if (flt && flt->kind == FF_EIO) { errno = EIO; return -1; }
  size_t sz = h.f->bytes.size();
  if (h.off >= sz) return 0;
  size_t k = std::min(n, sz - h.off);
  memcpy(buf, h.f->bytes.data() + h.off, k);
  h.off += k;
  F.stats.bytes_read += k;
  return (ssize_t)k;
}

ssize_t __wrap_write(int fd, const void *buf, size_t n) {
  FS &F = fs();
  if (F.handles.empty() || !F.handles.count(fd)) return __real_write(fd, buf, n);
  return sim_write(fd, buf, n);
}

ssize_t __wrap_writev(int fd, const struct iovec *iov, int cnt) {
  FS &F = fs();
  if (F.handles.empty() || !F.handles.count(fd)) return __real_writev(fd, iov, cnt);
  // gather, then behave like one write (which may be short)
  std::string all;
  for (int i = 0; i < cnt; i++) all.append((const char *)iov[i].iov_base, iov[i].iov_len);
  return sim_write(fd, all.data(), all.size());
}

off64_t __wrap_lseek64(int fd, off64_t off, int whence) {
  FS &F = fs();
  if (F.handles.empty() || !F.handles.count(fd)) return __real_lseek64(fd, off, whence);
  FS::Handle &h = F.handles[fd];
  F.stats.calls[FS_SEEK]++;
  long long base = whence == SEEK_SET ? 0 : (whence == SEEK_CUR ? (long long)h.off : (long long)h.f->bytes.size());
  long long np = base + off;
  if (np < 0) { errno = EINVAL; return -1; }
  h.off = (size_t)np;
  return (off64_t)np;
}

static int sim_fstat(int fd, struct stat64 *st) {
  FS &F = fs();
  FS::Handle &h = F.handles[fd];
  F.stats.calls[FS_STAT]++;
  memset(st, 0, sizeof *st);
  st->st_mode = S_IFREG | 0644;
  st->st_size = (off64_t)h.f->bytes.size();
  st->st_nlink = 1;
  st->st_blksize = 4096;
  return 0;
}
int __wrap_fstat64(int fd, struct stat64 *st) {
  FS &F = fs();
  if (F.handles.empty() || !F.handles.count(fd)) return __real_fstat64(fd, st);
  return sim_fstat(fd, st);
}
int __wrap_fstat(int fd, struct stat *st) {
  FS &F = fs();
  if (F.handles.empty() || !F.handles.count(fd)) return __real_fstat(fd, st);
  return sim_fstat(fd, (struct stat64 *)st);
}
int __wrap___fxstat64(int ver, int fd, struct stat64 *st) {
  FS &F = fs();
  if (F.handles.empty() || !F.handles.count(fd)) return __real_fstat64(fd, st);
  (void)ver;
  return sim_fstat(fd, st);
}

int __wrap_access(const char *path, int mode) {
  std::string sp;
  FS &F = fs();
  if (!F.map_path(path, sp)) return __real_access(path, mode);
  int walker;
  pre_call(FS_ACCESS, sp, walker);
  FsFault *flt = F.match_fault(walker, FS_ACCESS, sp);
  if (flt) {
    if (flt->kind == FF_EINTR) { errno = EINTR; return -1; }
    if (flt->kind == FF_EIO) { errno = EIO; return -1; }
  }
  if (F.files.count(sp)) return 0;
  errno = ENOENT;
  return -1;
}

int __wrap_rename(const char *a, const char *b) {
  std::string sa, sb;
  FS &F = fs();
  bool ma = F.map_path(a, sa), mb = F.map_path(b, sb);
  if (!ma && !mb) return __real_rename(a, b);
  if (ma != mb) { errno = EXDEV == 0 ? EIO : EIO; return -1; }
  int walker;
  bool zombie = pre_call(FS_RENAME, sa, walker);
  if (zombie) return 0;
  FsFault *flt = F.match_fault(walker, FS_RENAME, sa);
  bool die_after = false;
  if (flt) {
    switch (flt->kind) {
    case FF_EINTR: errno = EINTR; return -1;
    case FF_EIO: errno = EIO; return -1;
    case FF_ENOSPC: errno = ENOSPC; return -1;
    case FF_CRASH_BEFORE: F.set_dead(walker, true); return 0;
    case FF_CRASH_AFTER: case FF_CRASH_IN: die_after = true; break;
    default: break;
    }
  }
  auto it = F.files.find(sa);
  if (it == F.files.end()) { errno = ENOENT; return -1; }
  auto f = it->second;
  F.files.erase(it);
  F.files[sb] = f;
  FsMutation m; m.k = FsMutation::RENAME; m.path = sa; m.path2 = sb; m.file_id = f->id; m.walker = walker; m.call_kind = FS_RENAME;
  F.record(std::move(m));
  if (die_after) F.set_dead(walker, true);
  return 0;
}

static int sim_remove(std::string const &sp) {
  FS &F = fs();
  int walker;
  bool zombie = pre_call(FS_REMOVE, sp, walker);
  if (zombie) return 0;
  FsFault *flt = F.match_fault(walker, FS_REMOVE, sp);
  bool die_after = false;
  if (flt) {
    switch (flt->kind) {
    case FF_EIO: errno = EIO; return -1;
    case FF_CRASH_BEFORE: F.set_dead(walker, true); return 0;
    case FF_CRASH_AFTER: case FF_CRASH_IN: die_after = true; break;
    default: break;
    }
  }
  auto it = F.files.find(sp);
  if (it == F.files.end()) { errno = ENOENT; return -1; }
  F.files.erase(it);
  FsMutation m; m.k = FsMutation::REMOVE; m.path = sp; m.walker = walker; m.call_kind = FS_REMOVE;
  F.record(std::move(m));
  if (die_after) F.set_dead(walker, true);
  return 0;
}
int __wrap_remove(const char *p) {
  std::string sp;
  if (!fs().map_path(p, sp)) return __real_remove(p);
  return sim_remove(sp);
}
int __wrap_unlink(const char *p) {
  std::string sp;
  if (!fs().map_path(p, sp)) return __real_unlink(p);
  return sim_remove(sp);
}

char *__wrap_getcwd(char *buf, size_t n) {
  if (!fs().active) return __real_getcwd(buf, n);
  std::string d = "/simfs/w" + std::to_string(sched_current_group());
  if (d.size() + 1 > n) { errno = ERANGE; return nullptr; }
  memcpy(buf, d.c_str(), d.size() + 1);
  return buf;
}

}  // extern "C"
