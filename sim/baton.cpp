// See baton.h.  Compiled without any sanitizer.
#include "baton.h"

#include <atomic>
#include <cstdio>
#include <cstdlib>
#include <vector>
#include <pthread.h>
#include <unistd.h>
#include <sys/syscall.h>
#include <linux/futex.h>
#include <climits>

namespace sim {

namespace {

struct Task {
  int id = 0, group = 0;
  pthread_t th{};
  std::atomic<int> go{0};
  bool finished = false, joined = false, started = false;
  pred_fn pred = nullptr;
  void *parg = nullptr;
  task_fn fn = nullptr;
  void *arg = nullptr;
};

std::vector<Task *> g_tasks;
Task *g_cur = nullptr;
int g_cur_group = 0;
std::vector<int> g_choices;
size_t g_choice_pos = 0;
uint64_t g_budget = 0;
uint64_t g_seq = 0;
SchedStats g_stats;
switch_hook_fn g_hook = nullptr;
thread_local Task *t_self = nullptr;

inline void futex_wait(std::atomic<int> *a, int val) {
  syscall(SYS_futex, reinterpret_cast<int *>(a), FUTEX_WAIT_PRIVATE, val, nullptr, nullptr, 0);
}
inline void futex_wake(std::atomic<int> *a) {
  syscall(SYS_futex, reinterpret_cast<int *>(a), FUTEX_WAKE_PRIVATE, INT_MAX, nullptr, nullptr, 0);
}

inline void note(int task, int kind, uint64_t detail) {
  uint64_t h = g_stats.fingerprint ? g_stats.fingerprint : 1469598103934665603ULL;
  uint64_t v[4] = {g_seq++, (uint64_t)task, (uint64_t)kind, detail};
  const unsigned char *c = (const unsigned char *)v;
  for (size_t i = 0; i < sizeof v; i++) { h ^= c[i]; h *= 1099511628211ULL; }
  g_stats.fingerprint = h;
}

void park(Task *me) {
  while (me->go.load(std::memory_order_acquire) == 0) futex_wait(&me->go, 0);
  me->go.store(0, std::memory_order_relaxed);
}

void resumed(Task *me) {
  g_cur = me;
  if (me->group != g_cur_group) {
    g_stats.group_switches++;
    if (g_hook) g_hook(g_cur_group, me->group);
    g_cur_group = me->group;
  }
}

bool runnable(Task *t) {
  if (t->finished) return false;
  if (!t->pred) return true;
  if (g_stats.deadlock || g_stats.budget_exceeded) return true;
  return t->pred(t->parg);
}

Task *pick_next(Task *me) {
  // candidates in task-id order
  std::vector<Task *> others;
  bool me_ok = me && runnable(me);
  for (Task *t : g_tasks) if (t != me && runnable(t)) others.push_back(t);
  if (!me_ok && others.empty()) {
    // nobody can run: deadlock.  From now on every wait fails and returns.
    g_stats.deadlock = true;
    me_ok = me && !me->finished;
    for (Task *t : g_tasks) if (t != me && !t->finished) others.push_back(t);
    if (!me_ok && others.empty()) return nullptr;
  }
  if (others.empty()) return me;
  int c = 0;
  if (g_choice_pos < g_choices.size()) { c = g_choices[g_choice_pos++]; g_stats.choices_used++; }
  if (c < 0) c = -c;
  if (!me_ok) return others[(size_t)c % others.size()];
  if (c == 0) return me;
  return others[(size_t)(c - 1) % others.size()];
}

void switch_from(Task *me, Task *next, bool wait_back) {
  if (next == me) return;
  g_stats.switches++;
  next->go.store(1, std::memory_order_release);
  futex_wake(&next->go);
  if (wait_back) { park(me); resumed(me); }
}

void *thread_main(void *p) {
  Task *me = (Task *)p;
  t_self = me;
  park(me);
  resumed(me);
  me->started = true;
  me->fn(me->arg);
  me->finished = true;
  note(me->id, Y_END, 0);
  Task *next = pick_next(me);
  if (next && next != me) switch_from(me, next, false);
  return nullptr;
}

}  // namespace

void sched_reset(const int *choices, size_t n, uint64_t budget) {
  for (Task *t : g_tasks) {
    if (t->id != 0 && !t->joined) {
      if (!t->finished) { fprintf(stderr, "sched_reset: live task %d\n", t->id); abort(); }
      pthread_join(t->th, nullptr);
    }
    delete t;
  }
  g_tasks.clear();
  Task *m = new Task();
  m->id = 0; m->group = 0; m->th = pthread_self(); m->started = true;
  g_tasks.push_back(m);
  t_self = m; g_cur = m; g_cur_group = 0;
  g_choices.assign(choices, choices + n);
  g_choice_pos = 0; g_budget = budget; g_seq = 0;
  g_stats = SchedStats();
}

void sched_set_switch_hook(switch_hook_fn h) { g_hook = h; }

int sched_spawn(task_fn fn, void *arg, int group) {
  Task *t = new Task();
  t->id = (int)g_tasks.size(); t->group = group; t->fn = fn; t->arg = arg;
  g_tasks.push_back(t);
  g_stats.spawned++;
  pthread_attr_t at; pthread_attr_init(&at);
  pthread_attr_setstacksize(&at, 16u << 20);
  if (pthread_create(&t->th, &at, thread_main, t) != 0) { perror("pthread_create"); abort(); }
  pthread_attr_destroy(&at);
  note(t->id, Y_SPAWN, (uint64_t)group);
  return t->id;
}

int sched_live_tasks() {
  int n = 0;
  for (Task *t : g_tasks) if (!t->finished) n++;
  return n;
}

void sched_yield(int kind, uint64_t detail) {
  Task *me = t_self;
  if (!me) return;
  note(me->id, kind, detail);
  if (sched_live_tasks() <= 1) return;
  g_stats.yields++;
  if (g_budget && g_stats.yields > g_budget) g_stats.budget_exceeded = true;
  Task *next = pick_next(me);
  if (next) switch_from(me, next, true);
}

bool sched_wait(pred_fn pred, void *arg, int kind, uint64_t detail) {
  Task *me = t_self;
  note(me ? me->id : -1, kind, detail);
  if (pred(arg)) return true;
  if (g_stats.deadlock || g_stats.budget_exceeded) return false;
  g_stats.blocked_waits++;
  g_stats.yields++;
  if (g_budget && g_stats.yields > g_budget) { g_stats.budget_exceeded = true; return false; }
  me->pred = pred; me->parg = arg;
  Task *next = pick_next(me);
  if (next) switch_from(me, next, true);
  me->pred = nullptr; me->parg = nullptr;
  return pred(arg);
}

static bool finished_pred(void *p) { return ((Task *)p)->finished; }

void sched_join(int id) {
  Task *t = g_tasks[(size_t)id];
  while (!t->finished) {
    if (!sched_wait(finished_pred, t, Y_END, (uint64_t)id)) {
      // deadlock/budget mode: keep handing the baton until the task unwinds
      if (t->finished) break;
      Task *me = t_self;
      switch_from(me, t, true);
    }
  }
  if (!t->joined) { pthread_join(t->th, nullptr); t->joined = true; }
}

int sched_current() { return t_self ? t_self->id : 0; }
int sched_current_group() { return t_self ? t_self->group : 0; }
void sched_note(int kind, uint64_t detail) { note(t_self ? t_self->id : 0, kind, detail); }
SchedStats const &sched_stats() { return g_stats; }

}  // namespace sim
