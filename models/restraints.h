// Reference model of the restraint biases (C06): documented closed forms and schedules as
// functions of the absolute step alone.  Scalar variables (periodic or not).
#pragma once
#include <cmath>
#include <string>
#include <vector>
#include "json.h"

namespace model {

struct RCv { std::string name; double width = 1; bool periodic = false; };

struct RestraintSpec {
  std::string type;              // harmonic | walls | linear | abmd
  std::string name;
  std::vector<RCv> cvs;
  double k = 1;
  std::vector<double> c0, c1;    // centres, target centres (c1 empty: fixed)
  bool chg_k = false; double k1 = 0;
  bool decoupling = false;
  long nsteps = 0; int nstages = 0;
  std::vector<double> lambdas;   // lambdaSchedule
  long equil = 0; double exponent = 1;
  bool acc_work = false;
  std::vector<double> lower, upper; double lower_k = -1, upper_k = -1;   // walls (absolute constants, <0: use k)
  double stopping = 0; bool decreasing = false;                           // abmd
  long first = 0;
  sim::J to_json() const;
  void from_json(sim::J const &j);
};

inline double pdiff(double a, double b, bool periodic) {
  double d = a - b;
  if (periodic) { d = std::fmod(d, 360.0); if (d > 180.0) d -= 360.0; if (d < -180.0) d += 360.0; }
  return d;
}
inline double pwrap(double a, bool periodic) {
  if (!periodic) return a;
  a = std::fmod(a, 360.0); if (a > 180.0) a -= 360.0; if (a <= -180.0) a += 360.0;
  return a;
}

struct RestraintOut {
  double energy = 0;
  std::vector<double> force;     // on each variable
  std::vector<double> centers;
  double k = 0;
  double work = 0;
};

class RestraintModel {
public:
  RestraintSpec s;
  // history-dependent parts
  double work = 0;
  bool abmd_init = false; double abmd_ref = 0;
  long last_step = -1;

  explicit RestraintModel(RestraintSpec const &sp) : s(sp) {}

  int stages() const { return !s.lambdas.empty() ? (int)s.lambdas.size() - 1 : s.nstages; }

  std::vector<double> centers_at(long t) const {
    std::vector<double> c = s.c0;
    if (s.c1.empty() || t < s.first) return c;
    double lam;
    if (s.nstages > 0) {
      long m = t >= s.first + 1 ? (t - s.first - 1) / s.nsteps + 1 : 0;
      long st = std::max(0L, std::min(m, (long)s.nstages + 1) - 1);
      lam = (double)st / (double)s.nstages;
    } else lam = std::min(1.0, (double)(t - s.first) / (double)s.nsteps);
    for (size_t i = 0; i < c.size(); i++) c[i] = pwrap(s.c0[i] + (s.c1[i] - s.c0[i]) * lam, s.cvs[i].periodic);
    return c;
  }

  double k_at(long t) const {
    if (!s.chg_k && !s.decoupling) return s.k;
    double k0 = s.decoupling ? 0.0 : s.k, k1 = s.decoupling ? s.k : s.k1;
    double lam;
    int S = stages();
    if (S > 0) {
      long st = t >= s.first ? std::min((long)S, (t - s.first) / s.nsteps) : 0;
      if (!s.lambdas.empty()) lam = s.lambdas[(size_t)st];
      else { lam = (double)st / (double)S; if (s.decoupling) lam = 1.0 - lam; }
    } else {
      lam = t >= s.first ? std::min(1.0, (double)(t - s.first) / (double)s.nsteps) : 0.0;
      if (s.decoupling) lam = 1.0 - lam;
    }
    return k0 + (k1 - k0) * std::pow(lam, s.exponent);
  }

  // energy/forces for given centres and k
  void potential(std::vector<double> const &x, std::vector<double> const &c, double k, RestraintOut &o, double *dUdk = nullptr) const {
    o.energy = 0; o.force.assign(x.size(), 0.0);
    double du = 0;
    for (size_t i = 0; i < x.size(); i++) {
      double w = s.cvs[i].width;
      if (s.type == "harmonic") {
        double d = pdiff(x[i], c[i], s.cvs[i].periodic);
        o.energy += 0.5 * k / (w * w) * d * d; o.force[i] = -k / (w * w) * d; du += 0.5 / (w * w) * d * d;
      } else if (s.type == "linear") {
        double d = x[i] - c[i];
        o.energy += k / w * d; o.force[i] = -k / w; du += d / w;
      } else if (s.type == "walls") {
        double d = 0;
        bool hl = !s.lower.empty(), hu = !s.upper.empty();
        if (s.cvs[i].periodic) {
          double dl = pdiff(x[i], s.lower[i], true), dh = pdiff(x[i], s.upper[i], true);
          if (dl * dl < dh * dh) { if (dl < 0) d = dl; } else { if (dh > 0) d = dh; }
        } else {
          if (hl && x[i] - s.lower[i] < 0) d = x[i] - s.lower[i];
          if (hu && x[i] - s.upper[i] > 0) d = x[i] - s.upper[i];
        }
        // relative constants: geometric mean is the reference when both walls are given
        double kl = s.lower_k > 0 ? s.lower_k : s.k, ku = s.upper_k > 0 ? s.upper_k : s.k;
        double kref = (hl && hu) ? std::sqrt(kl * ku) : (hl ? kl : ku);
        double rel = d > 0 ? ku / kref : kl / kref;
        (void)kref;
        o.energy += 0.5 * k * rel / (w * w) * d * d; o.force[i] = -k * rel / (w * w) * d; du += 0.5 * rel / (w * w) * d * d;
      }
    }
    if (dUdk) *dUdk = du;
  }

  // advance to step t (every step must be presented once, in order; a repeated step is presented with repeated = true)
  RestraintOut step(long t, std::vector<double> const &x, bool repeated) {
    RestraintOut o;
    if (s.type == "abmd") {
      double val = x[0];
      if (!abmd_init) { abmd_ref = val; abmd_init = true; }
      double sign = s.decreasing ? -1.0 : 1.0;
      double diff = (val - abmd_ref) * sign;
      o.force.assign(1, 0.0);
      if (diff > 0) { o.energy = 0; if ((abmd_ref - s.stopping) * sign <= 0) abmd_ref = val; }
      else { o.force[0] = -sign * s.k * diff; o.energy = 0.5 * s.k * diff * diff; }
      o.centers = {abmd_ref}; o.k = s.k;
      return o;
    }
    std::vector<double> c = centers_at(t);
    double k = k_at(t);
    double du = 0;
    potential(x, c, k, o, &du);
    o.centers = c; o.k = k;
    if (s.acc_work && !repeated && t > s.first && t - s.first <= s.nsteps && s.nstages == 0 && s.lambdas.empty()) {
      if (!s.c1.empty()) {
        std::vector<double> cp = centers_at(t - 1);
        for (size_t i = 0; i < c.size(); i++) work += o.force[i] * pdiff(c[i], cp[i], s.cvs[i].periodic);
      }
      if (s.chg_k || s.decoupling) work += du * (k - k_at(t - 1));
    }
    o.work = work;
    last_step = t;
    return o;
  }
};

inline sim::J RestraintSpec::to_json() const {
  sim::J j = sim::J::obj();
  j["type"] = type; j["name"] = name; j["k"] = k; j["chg_k"] = chg_k; j["k1"] = k1; j["decoupling"] = decoupling;
  j["nsteps"] = (long long)nsteps; j["nstages"] = nstages; j["equil"] = (long long)equil; j["exponent"] = exponent; j["acc_work"] = acc_work;
  j["lower_k"] = lower_k; j["upper_k"] = upper_k; j["stopping"] = stopping; j["decreasing"] = decreasing; j["first"] = (long long)first;
  auto arr = [](std::vector<double> const &v) { sim::J a = sim::J::arr(); for (double x : v) a.push(sim::J(x)); return a; };
  j["c0"] = arr(c0); j["c1"] = arr(c1); j["lambdas"] = arr(lambdas); j["lower"] = arr(lower); j["upper"] = arr(upper);
  sim::J cv = sim::J::arr();
  for (auto const &c : cvs) { sim::J o = sim::J::obj(); o["name"] = c.name; o["width"] = c.width; o["periodic"] = c.periodic; cv.push(o); }
  j["cvs"] = cv;
  return j;
}
inline void RestraintSpec::from_json(sim::J const &j) {
  type = j.at("type").as_str(); name = j.at("name").as_str(); k = j.at("k").as_num(); chg_k = j.at("chg_k").as_bool(); k1 = j.at("k1").as_num();
  decoupling = j.at("decoupling").as_bool(); nsteps = (long)j.at("nsteps").as_int(); nstages = (int)j.at("nstages").as_int(); equil = (long)j.at("equil").as_int();
  exponent = j.at("exponent").as_num(1); acc_work = j.at("acc_work").as_bool(); lower_k = j.at("lower_k").as_num(-1); upper_k = j.at("upper_k").as_num(-1);
  stopping = j.at("stopping").as_num(); decreasing = j.at("decreasing").as_bool(); first = (long)j.at("first").as_int();
  auto arr = [](sim::J const &a) { std::vector<double> v; for (auto const &x : a.a) v.push_back(x.as_num()); return v; };
  c0 = arr(j.at("c0")); c1 = arr(j.at("c1")); lambdas = arr(j.at("lambdas")); lower = arr(j.at("lower")); upper = arr(j.at("upper"));
  cvs.clear();
  for (auto const &o : j.at("cvs").a) { RCv c; c.name = o.at("name").as_str(); c.width = o.at("width").as_num(1); c.periodic = o.at("periodic").as_bool(); cvs.push_back(c); }
}

}  // namespace model
