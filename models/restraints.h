// Reference model of the restraint biases (C06): documented closed forms and schedules as
// functions of the absolute step alone.  Scalar variables (periodic or not).
#pragma once
#include <cmath>
#include <map>
#include <string>
#include <vector>
#include "json.h"

namespace model {

struct RCv { std::string name; double width = 1; bool periodic = false; };

struct RestraintSpec {
  std::string type;              // harmonic | walls | linear | abmd
  std::string name;
  std::vector<RCv> cvs;
  double k = 1;
  std::vector<double> c0, c1;    // centres, target centres (c1 empty: fixed)
  bool chg_k = false; double k1 = 0;
  bool decoupling = false;
  long nsteps = 0; int nstages = 0;
  std::vector<double> lambdas;   // lambdaSchedule
  long equil = 0; double exponent = 1;
  bool acc_work = false;
  std::vector<double> lower, upper; double lower_k = -1, upper_k = -1;   // walls (absolute constants, <0: use k)
  double stopping = 0; bool decreasing = false;                           // abmd
  double h_lower = 0, h_width = 1, h_sigma = 0; std::vector<double> h_ref;   // histogram restraint: grid, Gaussian width, reference as given
  bool h_documented_scale = false;   // compare with the documented integral itself instead of the implementation's M/width times it
  long first = 0;
  sim::J to_json() const;
  void from_json(sim::J const &j);
};

inline double pdiff(double a, double b, bool periodic) {
  double d = a - b;
  if (periodic) { d = std::fmod(d, 360.0); if (d > 180.0) d -= 360.0; if (d < -180.0) d += 360.0; }
  return d;
}
inline double pwrap(double a, bool periodic) {
  if (!periodic) return a;
  a = std::fmod(a, 360.0); if (a > 180.0) a -= 360.0; if (a <= -180.0) a += 360.0;
  return a;
}

struct RestraintOut {
  double energy = 0;
  std::vector<double> force;     // on each variable
  std::vector<double> centers;
  double k = 0;
  double work = 0;
};

class RestraintModel {
public:
  RestraintSpec s;
  // history-dependent parts
  double work = 0;
  bool abmd_init = false; double abmd_ref = 0;
  long last_step = -1;
  // staged thermodynamic integration: per lambda point, sum and number of the dU/dlambda samples of its window
  struct TiAcc { double sum = 0; long n = 0; double scale = 0; };
  std::map<int, TiAcc> ti;

  explicit RestraintModel(RestraintSpec const &sp) : s(sp) {}

  int stages() const { return !s.lambdas.empty() ? (int)s.lambdas.size() - 1 : s.nstages; }

  std::vector<double> centers_at(long t) const {
    std::vector<double> c = s.c0;
    if (s.c1.empty() || t < s.first) return c;
    double lam;
    if (s.nstages > 0) {
      long m = t >= s.first + 1 ? (t - s.first - 1) / s.nsteps + 1 : 0;
      long st = std::max(0L, std::min(m, (long)s.nstages + 1) - 1);
      lam = (double)st / (double)s.nstages;
    } else lam = std::min(1.0, (double)(t - s.first) / (double)s.nsteps);
    for (size_t i = 0; i < c.size(); i++) c[i] = pwrap(s.c0[i] + (s.c1[i] - s.c0[i]) * lam, s.cvs[i].periodic);
    return c;
  }

  double k_at(long t) const {
    if (!s.chg_k && !s.decoupling) return s.k;
    double k0 = s.decoupling ? 0.0 : s.k, k1 = s.decoupling ? s.k : s.k1;
    double lam;
    int S = stages();
    if (S > 0) {
      long st = t >= s.first ? std::min((long)S, (t - s.first) / s.nsteps) : 0;
      if (!s.lambdas.empty()) lam = s.lambdas[(size_t)st];
      else { lam = (double)st / (double)S; if (s.decoupling) lam = 1.0 - lam; }
    } else {
      lam = t >= s.first ? std::min(1.0, (double)(t - s.first) / (double)s.nsteps) : 0.0;
      if (s.decoupling) lam = 1.0 - lam;
    }
    return k0 + (k1 - k0) * std::pow(lam, s.exponent);
  }

  // lambda of the st-th point of a staged force-constant schedule (0..stages())
  double lambda_of(int st) const {
    if (!s.lambdas.empty()) return s.lambdas[(size_t)std::min<int>(st, (int)s.lambdas.size() - 1)];
    double lam = (double)st / (double)stages();
    return s.decoupling ? 1.0 - lam : lam;
  }

  // energy/forces for given centres and k
  void potential(std::vector<double> const &x, std::vector<double> const &c, double k, RestraintOut &o, double *dUdk = nullptr) const {
    o.energy = 0; o.force.assign(x.size(), 0.0);
    double du = 0;
    for (size_t i = 0; i < x.size(); i++) {
      double w = s.cvs[i].width;
      if (s.type == "harmonic") {
        double d = pdiff(x[i], c[i], s.cvs[i].periodic);
        o.energy += 0.5 * k / (w * w) * d * d; o.force[i] = -k / (w * w) * d; du += 0.5 / (w * w) * d * d;
      } else if (s.type == "linear") {
        double d = x[i] - c[i];
        o.energy += k / w * d; o.force[i] = -k / w; du += d / w;
      } else if (s.type == "walls") {
        double d = 0;
        bool hl = !s.lower.empty(), hu = !s.upper.empty();
        if (s.cvs[i].periodic) {
          double dl = pdiff(x[i], s.lower[i], true), dh = pdiff(x[i], s.upper[i], true);
          if (dl * dl < dh * dh) { if (dl < 0) d = dl; } else { if (dh > 0) d = dh; }
        } else {
          if (hl && x[i] - s.lower[i] < 0) d = x[i] - s.lower[i];
          if (hu && x[i] - s.upper[i] > 0) d = x[i] - s.upper[i];
        }
        // relative constants: geometric mean is the reference when both walls are given
        double kl = s.lower_k > 0 ? s.lower_k : s.k, ku = s.upper_k > 0 ? s.upper_k : s.k;
        double kref = (hl && hu) ? std::sqrt(kl * ku) : (hl ? kl : ku);
        double rel = d > 0 ? ku / kref : kl / kref;
        (void)kref;
        o.energy += 0.5 * k * rel / (w * w) * d * d; o.force[i] = -k * rel / (w * w) * d; du += 0.5 * rel / (w * w) * d * d;
      }
    }
    if (dUdk) *dUdk = du;
  }

  // advance to step t (every step must be presented once, in order; a repeated step is presented with repeated = true)
  RestraintOut step(long t, std::vector<double> const &x, bool repeated) {
    RestraintOut o;
    if (s.type == "abmd") {
      double val = x[0];
      if (!abmd_init) { abmd_ref = val; abmd_init = true; }
      double sign = s.decreasing ? -1.0 : 1.0;
      double diff = (val - abmd_ref) * sign;
      o.force.assign(1, 0.0);
      if (diff > 0) { o.energy = 0; if ((abmd_ref - s.stopping) * sign <= 0) abmd_ref = val; }
      else { o.force[0] = -sign * s.k * diff; o.energy = 0.5 * s.k * diff * diff; }
      o.centers = {abmd_ref}; o.k = s.k;
      return o;
    }
    if (s.type == "histogram") {
      // documented: V = k/2 * integral (h - h0)^2 dxi on the mid-point grid, h = 1/(M sqrt(2 pi) sigma) sum_i exp(-(xi - xi_i)^2 / (2 sigma^2)),
      // h0 rescaled to unit integral when it is not normalised
      size_t M = x.size(), nb = s.h_ref.size(); double const kPi = 3.14159265358979323846;
      std::vector<double> h0 = s.h_ref; double integral = 0; for (double v : h0) integral += v * s.h_width;
      if (std::fabs(integral - 1.0) > 1e-9) for (double &v : h0) v /= integral;
      double norm = 1.0 / ((double)M * std::sqrt(2.0 * kPi) * s.h_sigma);
      std::vector<double> diff(nb);
      for (size_t g = 0; g < nb; g++) {
        double xg = s.h_lower + ((double)g + 0.5) * s.h_width, h = 0;
        for (size_t i = 0; i < M; i++) h += norm * std::exp(-(xg - x[i]) * (xg - x[i]) / (2.0 * s.h_sigma * s.h_sigma));
        diff[g] = h - h0[g];
      }
      double scale = s.h_documented_scale ? 1.0 : (double)M / s.h_width;   // (the implementation sums without the grid spacing and multiplies k by M: recorded finding)
      o.energy = 0; o.force.assign(M, 0.0);
      for (size_t g = 0; g < nb; g++) o.energy += 0.5 * s.k * diff[g] * diff[g] * s.h_width * scale;
      for (size_t i = 0; i < M; i++)
        for (size_t g = 0; g < nb; g++) {
          double xg = s.h_lower + ((double)g + 0.5) * s.h_width;
          double dh = norm * std::exp(-(xg - x[i]) * (xg - x[i]) / (2.0 * s.h_sigma * s.h_sigma)) * (xg - x[i]) / (s.h_sigma * s.h_sigma);
          o.force[i] -= s.k * diff[g] * dh * s.h_width * scale;
        }
      o.k = s.k;
      return o;
    }
    std::vector<double> c = centers_at(t);
    double k = k_at(t);
    double du = 0;
    potential(x, c, k, o, &du);
    o.centers = c; o.k = k;
    if (s.acc_work && !repeated && t > s.first && t - s.first <= s.nsteps && s.nstages == 0 && s.lambdas.empty()) {
      if (!s.c1.empty()) {
        std::vector<double> cp = centers_at(t - 1);
        for (size_t i = 0; i < c.size(); i++) work += o.force[i] * pdiff(c[i], cp[i], s.cvs[i].periodic);
      }
      if (s.chg_k || s.decoupling) work += du * (k - k_at(t - 1));
    }
    // staged TI: the window of lambda point st is (first + st N, first + (st+1) N]; the first `equil` steps of every
    // targetNumSteps-cycle are discarded; every step counts once however often it is presented
    int S = stages();
    if (S > 0 && (s.chg_k || s.decoupling) && !repeated && t > s.first) {
      long rel = t - s.first; int st = (int)((rel - 1) / s.nsteps); long rem = rel % s.nsteps;
      if (s.equil == 0 || rem >= s.equil) {
        double k0 = s.decoupling ? 0.0 : s.k, k1 = s.decoupling ? s.k : s.k1, lam = lambda_of(std::min(st, S));   // (after the last point the constant stays and the windows go on)
        double v = s.exponent * std::pow(lam, s.exponent - 1.0) * (k1 - k0) * du;
        ti[st].sum += v; ti[st].n++; ti[st].scale = std::max(ti[st].scale, std::fabs(v));
      }
    }
    o.work = work;
    last_step = t;
    return o;
  }
};

inline sim::J RestraintSpec::to_json() const {
  sim::J j = sim::J::obj();
  j["h_lower"] = h_lower; j["h_width"] = h_width; j["h_sigma"] = h_sigma; j["h_documented_scale"] = h_documented_scale;
  { sim::J a = sim::J::arr(); for (double v : h_ref) a.push(v); j["h_ref"] = a; }
  j["type"] = type; j["name"] = name; j["k"] = k; j["chg_k"] = chg_k; j["k1"] = k1; j["decoupling"] = decoupling;
  j["nsteps"] = (long long)nsteps; j["nstages"] = nstages; j["equil"] = (long long)equil; j["exponent"] = exponent; j["acc_work"] = acc_work;
  j["lower_k"] = lower_k; j["upper_k"] = upper_k; j["stopping"] = stopping; j["decreasing"] = decreasing; j["first"] = (long long)first;
  auto arr = [](std::vector<double> const &v) { sim::J a = sim::J::arr(); for (double x : v) a.push(sim::J(x)); return a; };
  j["c0"] = arr(c0); j["c1"] = arr(c1); j["lambdas"] = arr(lambdas); j["lower"] = arr(lower); j["upper"] = arr(upper);
  sim::J cv = sim::J::arr();
  for (auto const &c : cvs) { sim::J o = sim::J::obj(); o["name"] = c.name; o["width"] = c.width; o["periodic"] = c.periodic; cv.push(o); }
  j["cvs"] = cv;
  return j;
}
inline void RestraintSpec::from_json(sim::J const &j) {
  type = j.at("type").as_str(); name = j.at("name").as_str(); k = j.at("k").as_num(); chg_k = j.at("chg_k").as_bool(); k1 = j.at("k1").as_num();
  decoupling = j.at("decoupling").as_bool(); nsteps = (long)j.at("nsteps").as_int(); nstages = (int)j.at("nstages").as_int(); equil = (long)j.at("equil").as_int();
  exponent = j.at("exponent").as_num(1); acc_work = j.at("acc_work").as_bool(); lower_k = j.at("lower_k").as_num(-1); upper_k = j.at("upper_k").as_num(-1);
  stopping = j.at("stopping").as_num(); decreasing = j.at("decreasing").as_bool(); first = (long)j.at("first").as_int();
  auto arr = [](sim::J const &a) { std::vector<double> v; for (auto const &x : a.a) v.push_back(x.as_num()); return v; };
  c0 = arr(j.at("c0")); c1 = arr(j.at("c1")); lambdas = arr(j.at("lambdas")); lower = arr(j.at("lower")); upper = arr(j.at("upper"));
  h_lower = j.at("h_lower").as_num(); h_width = j.at("h_width").as_num(1); h_sigma = j.at("h_sigma").as_num(); h_documented_scale = j.at("h_documented_scale").as_bool(); h_ref = arr(j.at("h_ref"));
  cvs.clear();
  for (auto const &o : j.at("cvs").a) { RCv c; c.name = o.at("name").as_str(); c.width = o.at("width").as_num(1); c.periodic = o.at("periodic").as_bool(); cvs.push_back(c); }
}

}  // namespace model
