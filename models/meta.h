// Reference model of the metadynamics bias (C05): the sum of the hills deposited on schedule.
// Scalar variables (periodic with period 360 or not).  The grid geometry (boundaries, widths,
// sizes) is an input of the model; everything else is computed independently.
#pragma once
#include <cmath>
#include <string>
#include <vector>

namespace model {

struct MetaSpec {
  std::vector<bool> periodic;
  std::vector<double> sigma;
  double weight = 0.1;
  int new_hill_freq = 1;
  int grids_freq = 1;          // tabulation schedule
  bool use_grids = true;
  bool well_tempered = false;
  double bias_temperature = 0; // K
  double boltzmann = 0.001987191;
};

struct GridGeom {
  std::vector<double> lower, width;
  std::vector<int> n;
  std::vector<bool> periodic;
};

struct Hill { long step; std::vector<double> c; double w; bool tabulated = false; };

class MetaModel {
public:
  MetaSpec s;
  std::vector<Hill> hills;
  explicit MetaModel(MetaSpec const &sp) : s(sp) {}

  double pd(double a, double b, size_t i) const {
    double d = a - b;
    if (s.periodic[i]) { d = std::fmod(d, 360.0); if (d > 180.0) d -= 360.0; if (d < -180.0) d += 360.0; }
    return d;
  }
  // value and gradient of one hill at x
  double hill(Hill const &h, std::vector<double> const &x, std::vector<double> *grad) const {
    double a = 0;
    for (size_t i = 0; i < x.size(); i++) { double d = pd(x[i], h.c[i], i); a += d * d / (s.sigma[i] * s.sigma[i]); }
    if (a > 23.0) return 0.0;    // documented truncation: a hill contributes nothing below exp(-11.5)
    double v = h.w * std::exp(-0.5 * a);
    if (grad) for (size_t i = 0; i < x.size(); i++) (*grad)[i] += -v * pd(x[i], h.c[i], i) / (s.sigma[i] * s.sigma[i]);
    return v;
  }
  // bin of x on the grid; false if outside
  bool bin_centre(GridGeom const &g, std::vector<double> const &x, std::vector<double> &centre) const {
    centre.resize(x.size());
    for (size_t i = 0; i < x.size(); i++) {
      double xi = x[i];
      long idx = (long)std::floor((xi - g.lower[i]) / g.width[i]);
      if (g.periodic[i]) { idx %= g.n[i]; if (idx < 0) idx += g.n[i]; }
      else if (idx < 0 || idx >= g.n[i]) return false;
      centre[i] = g.lower[i] + ((double)idx + 0.5) * g.width[i];
    }
    return true;
  }
  // bias energy and force on the variables at x
  double evaluate(GridGeom const *g, std::vector<double> const &x, std::vector<double> &force) const {
    force.assign(x.size(), 0.0);
    std::vector<double> grad(x.size(), 0.0), centre;
    double e = 0;
    bool inside = s.use_grids && g && bin_centre(*g, x, centre);
    for (auto const &h : hills) {
      if (inside && h.tabulated) e += hill(h, centre, &grad);
      else e += hill(h, x, &grad);
    }
    for (size_t i = 0; i < x.size(); i++) force[i] = -grad[i];
    return e;
  }
  // one step; `eligible` = this step may deposit (not a repeated step); returns energy
  double step(long t, std::vector<double> const &x, bool eligible, GridGeom const *g, std::vector<double> &force, bool *deposited = nullptr) {
    if (deposited) *deposited = false;
    if (eligible && s.new_hill_freq > 0 && t % s.new_hill_freq == 0) {
      double w = s.weight;
      if (s.well_tempered) { std::vector<double> f; double v = evaluate(g, x, f); w *= std::exp(-v / (s.boltzmann * s.bias_temperature)); }
      hills.push_back(Hill{t, x, w, false});
      if (deposited) *deposited = true;
    }
    if (s.use_grids && s.grids_freq > 0 && t % s.grids_freq == 0) tabulate_all();
    return evaluate(g, x, force);
  }
  void tabulate_all() { for (auto &h : hills) h.tabulated = true; }
  double total_weight() const { double w = 0; for (auto const &h : hills) w += std::fabs(h.w); return w; }
};

}  // namespace model
