// C16 — PMF integration solves the stated discrete problem; incremental equals batch.
//
// Workload: ABF with on-the-fly integration on 1, 2 or 3 variables (5 kinds, periodic and not,
// different bin widths per dimension, 3-7 bins), samples arriving in the order and multiplicity
// the trajectory dictates, in several run segments and across a stop/restart.
// Oracle:
//  incremental = batch   after every step the divergence field the bias keeps up to date as samples
//            arrive equals the field recomputed from scratch from the current gradients (set_div);
//  stated stencil   that field equals an independent implementation of the documented divergence:
//            at every node, for every dimension d, the difference of the mean gradient's d-component
//            between the cells on either side, averaged over the 2^(n-1) cell pairs around the node
//            and divided by the bin width of d, cells outside a non-periodic grid counting as zero;
//  1-D      the surface the bias writes is the cumulative sum of mean gradient times width, with the
//            mean gradient removed for a periodic variable (so that it is periodic), minimum at zero;
//  2-D/3-D  at interior nodes the standard second-difference Laplacian of the written surface
//            equals the divergence to the solver tolerance.
#include "simrun.h"
#include "scenario.h"

#include "colvarbias_abf.h"

#include <cmath>
#include <memory>
#include <set>

using namespace sim;

namespace {

J gen(uint64_t seed, bool thorough) {
  Rng r(seed, 16);
  EngineCfg ec;
  ec.natoms = (int)r.range(10, 16);
  ec.data_seed = r.next() >> 12; ec.noise_seed = r.next() >> 12;
  ec.dt = 1.0; ec.temperature = 300.0; ec.forces_late = r.chance(0.5);
  ec.traj_amp = r.uniform(0.5, 1.2);
  TrajModel m; m.build(ec.data_seed, ec.natoms, ec.traj_amp, ec.force_amp, false);
  long T = thorough ? 150 : 70;
  J plan = J::obj();
  plan["v"] = 1; plan["property"] = "C16"; plan["seed"] = (long long)seed;
  J sc = J::obj();
  J e = J::obj(); ec.to_json(e); sc["engine"] = e;
  sc["config"] = global_config(1, 0, false);
  sc["T"] = (long long)T;
  static const char *kinds[] = {"distance", "distanceZ", "dihedral", "angle", "distanceXY"};
  double u = r.unit();
  int ncv = u < 0.25 ? 1 : (u < 0.65 ? 2 : 3);
  std::string cvtext, names, sig;
  // a fifth of the 2-D plans are eABF (fictitious coordinates, CZAR estimator with its own surface), and end with a second
  // job that reads the first one's window files through inputPrefix and writes its output before any step ("run 0" merge)
  bool eabf = ncv == 2 && r.chance(0.4);
  for (int i = 0; i < ncv; i++) {
    CvSpec c = make_cv(r, ec.natoms, kinds[r.below(5)], "v" + std::to_string(i));
    place_grid(c, m, T, r, (int)r.range(3, ncv == 3 ? 5 : 7), r.uniform(0.8, 1.4));
    if (eabf) c.extra += "  extendedLagrangian on\n  extendedFluctuation " + num(c.width * 0.5) + "\n  extendedTimeConstant 100\n";
    cvtext += c.config(); names += (i ? " " : "") + c.name; sig += c.kind.substr(0, 4) + "+";
  }
  sc["cvs"] = cvtext; sc["ncv"] = ncv; sc["eabf"] = eabf;
  sc["abf"] = "abf {\n  name abf\n  colvars " + names + "\n  fullSamples " + std::to_string(r.range(1, 10)) + "\n  integrate on\n  integrateTol 1e-10\n  integrateMaxIterations 100000\n" + (r.chance(0.3) ? "  applyBias off\n" : "") + (eabf ? "  writeCZARwindowFile on\n" : "") + "}\n";
  J ops = J::arr();
  long left = T; int nseg = (int)r.range(1, 3);
  for (int s = 0; s < nseg && left > 0; s++) {
    long n = s == nseg - 1 ? left : r.range(1, std::max<long>(1, left - (nseg - 1 - s)));
    J op = J::obj(); op["w"] = 0; op["op"] = "run"; op["n"] = (long long)n; ops.push(op); left -= n; sig += "r";
    if (s < nseg - 1 && r.chance(0.5)) { J o2 = J::obj(); o2["w"] = 0; o2["op"] = "restart"; ops.push(o2); sig += "S"; }
  }
  if (eabf) { J o2 = J::obj(); o2["w"] = 0; o2["op"] = "merge"; ops.push(o2); sig += "M"; }
  sc["template"] = sig + (ec.forces_late ? "/late" : "/same") + (eabf ? "/eabf" : "");
  plan["scenario"] = sc;
  plan["ops"] = ops;
  return plan;
}

bool close_enough(double a, double b, double rtol, double atol) { return std::fabs(a - b) <= atol + rtol * std::max(std::fabs(a), std::fabs(b)); }

struct Geo { size_t nd; std::vector<int> ng, np; std::vector<bool> per; std::vector<double> w; };   // ng: gradient cells, np: PMF nodes

size_t lin(Geo const &g, std::vector<int> const &ix) { size_t a = 0; for (size_t i = 0; i < g.nd; i++) a = a * (size_t)g.np[i] + (size_t)ix[i]; return a; }

// mean gradient of a cell (zero outside a non-periodic grid or without samples)
bool cell(Geo const &g, colvar_grid_gradient *gg, std::vector<int> ix, std::vector<double> &out) {
  out.assign(g.nd, 0.0);
  for (size_t i = 0; i < g.nd; i++) {
    if (g.per[i]) { ix[i] %= g.ng[i]; if (ix[i] < 0) ix[i] += g.ng[i]; }
    else if (ix[i] < 0 || ix[i] >= g.ng[i]) return false;
  }
  for (size_t i = 0; i < g.nd; i++) out[i] = gg->value_output(ix, i);
  return true;
}

// the documented divergence at node ix
double divergence_at(Geo const &g, colvar_grid_gradient *gg, std::vector<int> const &node) {
  double div = 0; size_t nd = g.nd; int npairs = 1 << (nd - 1);
  for (size_t d = 0; d < nd; d++) {
    double acc = 0;
    for (int mask = 0; mask < npairs; mask++) {
      // the other dimensions take offset -1 or 0 according to the mask; d takes -1 and 0
      std::vector<int> lo(nd), hi(nd); int bit = 0;
      for (size_t q = 0; q < nd; q++) { if (q == d) { lo[q] = node[q] - 1; hi[q] = node[q]; } else { int off = ((mask >> bit) & 1) ? 0 : -1; bit++; lo[q] = hi[q] = node[q] + off; } }
      std::vector<double> a, b; cell(g, gg, lo, a); cell(g, gg, hi, b);
      acc += b[d] - a[d];
    }
    div += acc / g.w[d];
  }
  return div / (double)npairs;
}

RunResult run(J const &plan) {
  RunResult res;
  J const &sc = plan.at("scenario");
  EngineCfg ec; std::string config; long T;
  scenario_from_json(sc, ec, config, T);
  SimRun sim(1);
  std::unique_ptr<Engine> e(new Engine(ec));
  std::string conf = config + sc.at("cvs").as_str() + sc.at("abf").as_str();
  if (e->configure(conf) != COLVARS_OK || cvm::get_error()) { res.counters["probe.configuration_refused"]++; res.detail = e->last_error(); sim.finish(res); return res; }
  long nodes_checked = 0, steps_checked = 0, restarts = 0, samples = 0;
  Geo g;
  auto geometry = [&](colvarbias_abf *abf) {
    colvar_grid_gradient *gg = colvars_verif_access::abf_gradients(abf); integrate_potential *pmf = colvars_verif_access::abf_pmf(abf);
    g.nd = gg->num_variables(); g.ng.clear(); g.np.clear(); g.per.clear(); g.w.clear();
    for (size_t i = 0; i < g.nd; i++) { g.ng.push_back((int)gg->number_of_points((int)i)); g.np.push_back((int)pmf->number_of_points((int)i)); g.per.push_back(gg->periodic[i]); g.w.push_back(gg->widths[i]); }
  };
  auto check_div = [&](Engine *ep, std::string const &at) {
    colvarbias_abf *abf = dynamic_cast<colvarbias_abf *>(cvm::bias_by_name("abf")); if (!abf) return;
    geometry(abf);
    if (g.nd < 2) return;
    colvar_grid_gradient *gg = colvars_verif_access::abf_gradients(abf); integrate_potential *pmf = colvars_verif_access::abf_pmf(abf);
    std::vector<cvm::real> inc = colvars_verif_access::pot_divergence(pmf);
    double scale = 0; for (double v : inc) scale = std::max(scale, std::fabs(v));
    std::vector<int> ix(g.nd, 0);
    size_t total = 1; for (int n : g.np) total *= (size_t)n;
    if (inc.size() != total) { res.fail("divergence", "field_size", at + ": " + std::to_string(inc.size()) + " values for " + std::to_string(total) + " nodes"); return; }
    for (size_t a = 0; a < total; a++) {
      double want = divergence_at(g, gg, ix);
      if (!close_enough(inc[lin(g, ix)], want, 1e-10, 1e-11 * (scale + 1.0))) { std::string b; for (int q : ix) b += std::to_string(q) + " "; res.fail("divergence", "differs_from_documented_stencil/" + std::to_string(g.nd) + "d", at + ": node [" + b + "] holds " + fmt_double(inc[lin(g, ix)]) + ", the stencil applied to the current mean gradients gives " + fmt_double(want)); return; }
      nodes_checked++;
      for (size_t i = g.nd; i-- > 0;) { if (++ix[i] < g.np[i]) break; ix[i] = 0; }
    }
    pmf->set_div();
    std::vector<cvm::real> const &batch = colvars_verif_access::pot_divergence(pmf);
    for (size_t a = 0; a < total; a++) if (inc[a] != batch[a] && !close_enough(inc[a], batch[a], 1e-13, 1e-13 * (scale + 1.0))) { res.fail("divergence", "incremental_differs_from_batch/" + std::to_string(g.nd) + "d", at + ": node " + std::to_string(a) + " kept at " + fmt_double(inc[a]) + ", recomputed from the gradients " + fmt_double(batch[a])); return; }
    steps_checked++;
    (void)ep;
  };
  auto hook = [&](Engine *ep) {
    ep->after_step = [&, ep](long step) {
      if (res.violation) return;
      StepRec const &r = ep->rec.back();
      if (r.err) { res.fail("divergence", "step_error", "step " + std::to_string(step) + ": " + ep->last_error()); return; }
      check_div(ep, "step " + std::to_string(step));
    };
  };
  hook(e.get());
  for (auto const &op : plan.at("ops").a) {
    if (res.violation) break;
    std::string k = op.at("op").as_str();
    cvm::clear_error();
    if (k == "merge") continue;
    if (k == "run") e->run((int)op.at("n").as_int(1), true);
    else if (k == "restart") {
      if (e->rec.empty()) continue;
      long at_step = (long)cvm::step_absolute();
      e.reset();
      ModuleStatics().load();
      e.reset(new Engine(ec));
      if (e->configure(conf) != COLVARS_OK || cvm::get_error()) { res.counters["probe.configuration_refused"]++; break; }
      e->first_step = at_step;
      hook(e.get());
      if (e->load_state("/simfs/w0/out") != COLVARS_OK) { res.fail("divergence", "state_not_loaded", e->last_error()); break; }
      restarts++;
      check_div(e.get(), "after restart at step " + std::to_string(at_step));
    }
  }
  // a surface and the gradients it was integrated from: stored divergence = stencil(gradients); interior Laplacian(surface) = divergence
  auto check_surface = [&](integrate_potential *pmf, colvar_grid_gradient *gg, std::string const &tag) {
    if (!pmf || !gg || res.violation) return;
    Geo h; h.nd = gg->num_variables();
    for (size_t i = 0; i < h.nd; i++) { h.ng.push_back((int)gg->number_of_points((int)i)); h.np.push_back((int)pmf->number_of_points((int)i)); h.per.push_back(gg->periodic[i]); h.w.push_back(gg->widths[i]); }
    if (h.nd < 2) return;
    std::vector<cvm::real> const &div = colvars_verif_access::pot_divergence(pmf);
    size_t total = 1; for (int n : h.np) total *= (size_t)n;
    if (div.size() != total) { res.fail("pmf", "divergence_size/" + tag, std::to_string(div.size()) + " values for " + std::to_string(total) + " nodes"); return; }
    double dscale = 0, gscale = 0; for (double v : div) dscale = std::max(dscale, std::fabs(v));
    std::vector<int> ix(h.nd, 0); double res2 = 0, norm2 = 0; long interior = 0;
    for (size_t a = 0; a < total && !res.violation; a++) {
      double want = divergence_at(h, gg, ix); gscale = std::max(gscale, std::fabs(want));
      if (!close_enough(div[lin(h, ix)], want, 1e-9, 1e-10 * (dscale + gscale + 1e-30))) { std::string b; for (int q : ix) b += std::to_string(q) + " "; res.fail("pmf", "divergence_differs_from_written_gradients/" + tag, "node [" + b + "]: the surface was integrated from a divergence of " + fmt_double(div[lin(h, ix)]) + ", the gradients written next to it give " + fmt_double(want)); break; }
      bool inner = true; for (size_t i = 0; i < h.nd; i++) if (!h.per[i] && (ix[i] == 0 || ix[i] == h.np[i] - 1)) inner = false;
      if (inner) {
        double lap = 0, c = pmf->value(ix);
        for (size_t i = 0; i < h.nd; i++) { std::vector<int> p = ix, m = ix; p[i] = (ix[i] + 1) % h.np[i]; m[i] = (ix[i] - 1 + h.np[i]) % h.np[i]; lap += (pmf->value(p) - 2.0 * c + pmf->value(m)) / (h.w[i] * h.w[i]); }
        double d = lap - want; res2 += d * d; interior++;
      }
      norm2 += want * want;
      for (size_t i = h.nd; i-- > 0;) { if (++ix[i] < h.np[i]) break; ix[i] = 0; }
    }
    if (!res.violation && interior > 0 && std::sqrt(res2) > 1e-6 * (std::sqrt(norm2) + 1e-12) + 1e-9) res.fail("pmf", "laplacian_differs_from_divergence/" + tag, "over " + std::to_string(interior) + " interior nodes |Laplacian(surface) - divergence| = " + fmt_double(std::sqrt(res2)) + ", |divergence| = " + fmt_double(std::sqrt(norm2)));
    nodes_checked += interior; res.counters["probe.surfaces_checked/" + tag]++;
  };
  // ---- the surface the bias writes (integration happens when output is written)
  if (!res.violation) {
    e->end_run();
    colvarbias_abf *abf = dynamic_cast<colvarbias_abf *>(cvm::bias_by_name("abf"));
    if (abf) {
      geometry(abf);
      colvar_grid_gradient *gg = colvars_verif_access::abf_gradients(abf); integrate_potential *pmf = colvars_verif_access::abf_pmf(abf); colvar_grid_count *gs = colvars_verif_access::abf_samples(abf);
      for (std::vector<int> ix = gs->new_index(); gs->index_ok(ix); gs->incr(ix)) samples += (long)gs->value(ix);
      if (samples > 0 && g.nd == 1) {
        // cumulative sum, periodic correction, minimum at zero
        int n = g.ng[0]; std::vector<double> mg((size_t)n);
        for (int i = 0; i < n; i++) { std::vector<int> ix{i}; mg[(size_t)i] = gg->value_output(ix, 0); }
        double corr = 0; if (g.per[0]) { for (double v : mg) corr += v; corr /= n; }
        std::vector<double> A; double sum = 0; for (int i = 0; i < n; i++) { A.push_back(sum); sum += (mg[(size_t)i] - corr) * g.w[0]; } if (!g.per[0]) A.push_back(sum);
        double mn = A[0]; for (double v : A) mn = std::min(mn, v); for (double &v : A) v -= mn;
        double scale = 0; for (double v : A) scale = std::max(scale, std::fabs(v));
        if ((int)A.size() != g.np[0]) res.fail("pmf", "size_1d", std::to_string(g.np[0]) + " nodes, " + std::to_string(A.size()) + " expected");
        for (int i = 0; i < g.np[0] && !res.violation; i++) { std::vector<int> ix{i}; double v = pmf->value(ix); if (!close_enough(v, A[(size_t)i], 1e-10, 1e-11 * (scale + 1.0))) res.fail("pmf", "cumulative_sum_1d", "node " + std::to_string(i) + ": surface " + fmt_double(v) + ", cumulative sum of the mean gradients " + fmt_double(A[(size_t)i])); nodes_checked++; }
        if (!res.violation && g.per[0] && std::fabs(sum) > 1e-9 * (scale + 1.0)) res.fail("pmf", "not_periodic_1d", "the corrected gradients add up to " + fmt_double(sum));
      } else if (samples > 0) {
        // interior nodes: second-difference Laplacian of the surface = divergence
        std::vector<cvm::real> const &div = colvars_verif_access::pot_divergence(pmf);
        double dscale = 0; for (double v : div) dscale = std::max(dscale, std::fabs(v));
        double norm = 0; for (double v : div) norm += v * v; norm = std::sqrt(norm);
        std::vector<int> ix(g.nd, 0); size_t total = 1; for (int n : g.np) total *= (size_t)n;
        double res2 = 0; long interior = 0;
        for (size_t a = 0; a < total; a++) {
          bool inner = true; for (size_t i = 0; i < g.nd; i++) if (!g.per[i] && (ix[i] == 0 || ix[i] == g.np[i] - 1)) inner = false;
          if (inner) {
            double lap = 0, c = pmf->value(ix);
            for (size_t i = 0; i < g.nd; i++) { std::vector<int> p = ix, m = ix; p[i] = (ix[i] + 1) % g.np[i]; m[i] = (ix[i] - 1 + g.np[i]) % g.np[i]; lap += (pmf->value(p) - 2.0 * c + pmf->value(m)) / (g.w[i] * g.w[i]); }
            double d = lap - div[lin(g, ix)]; res2 += d * d; interior++;
          }
          for (size_t i = g.nd; i-- > 0;) { if (++ix[i] < g.np[i]) break; ix[i] = 0; }
        }
        res.counters["probe.interior_nodes"] += interior;
        if (interior > 0 && std::sqrt(res2) > 1e-6 * (norm + 1e-12) + 1e-9) res.fail("pmf", "laplacian_differs_from_divergence/" + std::to_string(g.nd) + "d", "over " + std::to_string(interior) + " interior nodes |Laplacian(surface) - divergence| = " + fmt_double(std::sqrt(res2)) + ", |divergence| = " + fmt_double(norm));
        nodes_checked += interior;
      }
      // the CZAR estimator's own surface (eABF)
      check_surface(colvars_verif_access::abf_czar_pmf(abf), colvars_verif_access::abf_czar_gradients(abf), "czar");
    }
  }
  // ---- "run 0" merge job: a fresh instance reads the window files through inputPrefix and writes its output before any step
  bool merge = false; for (auto const &op : plan.at("ops").a) if (op.at("op").as_str() == "merge") merge = true;
  if (!res.violation && merge && samples > 0) {
    add_steps(res, *e);
    e.reset();
    ModuleStatics().load();
    EngineCfg ec2 = ec; ec2.out_prefix = "/simfs/w0/merged";
    e.reset(new Engine(ec2));
    std::string abf2 = sc.at("abf").as_str(); size_t q = abf2.rfind("}"); abf2.insert(q, "  inputPrefix /simfs/w0/out\n");
    if (e->configure(config + sc.at("cvs").as_str() + abf2) != COLVARS_OK || cvm::get_error()) { res.counters["probe.merge_refused"]++; res.detail = e->last_error(); }
    else {
      e->run(0, true);   // one evaluation at step 0, then the output files
      colvarbias_abf *abf = dynamic_cast<colvarbias_abf *>(cvm::bias_by_name("abf"));
      if (abf) {
        check_surface(colvars_verif_access::abf_czar_pmf(abf), colvars_verif_access::abf_czar_gradients(abf), "czar_after_inputPrefix");
        check_surface(colvars_verif_access::abf_pmf(abf), colvars_verif_access::abf_gradients(abf), "pmf_after_inputPrefix");
        res.counters["probe.merge_jobs"]++;
      }
    }
  }
  add_steps(res, *e);
  sim.finish(res);
  res.counters["probe.steps_checked"] += steps_checked;
  res.counters["probe.nodes_checked"] += nodes_checked;
  res.counters["probe.restarts"] += restarts; res.counters["fault.stop_and_restart"] += restarts;
  res.counters["probe.samples"] += samples;
  res.nontrivial = samples > 0 && nodes_checked > 0;
  res.class_hash = fnv_str(sc.at("template").as_str(), 16);
  res.features = std::to_string(sc.at("ncv").as_int()) + "d" + (restarts ? "+restart" : "") + (sc.at("eabf").as_bool() ? "+eabf" : "");
  uint64_t fp = 1469598103934665603ULL; fp = fnv_u64((uint64_t)samples, fp);
  res.fingerprint = fnv_u64(fp, res.fingerprint);
  return res;
}

Property make() {
  Property p;
  p.id = "C16"; p.level = "exploration"; p.design_ref = "DESIGN.md §7 C16";
  p.rule = "plan = ABF with integration on 1 (25%), 2 (40%) or 3 (35%) variables (5 kinds, 3-7 bins, 3-5 in 3-D, every dimension with its own width), 70-150 steps in 1-3 run segments with optional stop/restart, same-step or lagged forces; "
           "non-trivial = samples accumulated and nodes checked; distinct = hash of (kinds, segmentation, convention)";
  p.assumptions = {"the divergence stencil and the interior second-difference Laplacian are re-implemented independently (general in the dimension); the boundary rows of the Laplacian (modified Neumann) are not re-implemented: the Laplacian test covers interior nodes only",
                   "second-order convergence to a smooth surface is a numerical-analysis statement with no history in it: not decided here",
                   "integration tolerance 1e-10; residual bound 1e-6 of the divergence norm"};
  p.real_components = {"integrate_potential: update_div_neighbors/update_div_local/set_div/get_grad, integrate (1-D sum, conjugate gradients), atimes", "colvarbias_abf sample accumulation and output", "ABF state read (divergence rebuilt after restart)"};
  p.stub_components = {"MD engine (kinematic)", "file system (sim::FS)"};
  p.gen = gen; p.run = run;
  p.quick_runs = 1500; p.thorough_runs = 40000; p.quick_secs = 70; p.thorough_secs = 900;
  return p;
}
Registrar reg(make());

}  // namespace
