// C08 — bias contributions superpose and multiple-time-step scaling conserves impulse.
//
// Workload: 1-3 variables and 2-4 biases from the catalogue (restraints, walls, linear, moving
// restraints, metadynamics, ABF, non-biasing histogram and ABF with applyBias off), some with
// timeStepFactor n, run in several segments on one kinematic trajectory (same-step or lagged
// total forces, the lagged ones containing Colvars' own forces of the previous step), with biases
// switched off and on again through the script interface at seeded points.
// Reference: the same plan with each bias ALONE (same variables, same segmentation, same
// switch points), and, for stateless biases with timeStepFactor n > 1, alone with factor 1.
// Oracle, every step: atom forces and total energy of the full run equal the sums over the
// single-bias runs (different summation order only: rtol 1e-10); each bias's own energy is the
// same alone and together; a non-biasing or switched-off bias contributes exactly zero; a bias
// with factor n contributes nothing on steps that are not multiples of n and n times the force of
// its factor-1 twin on those that are.
#include "simrun.h"
#include "scenario.h"

#include <cmath>
#include <memory>
#include <set>

using namespace sim;

namespace {

const char *k_tmpl[] = {"harm_fixed", "harm_cmove", "harm_kmove", "walls_fixed", "walls_kmove", "linear_fixed", "meta_grid", "meta_nogrid", "meta_wt", "abf", "abf_noapply", "histogram", "harm_fixed", "walls_fixed", "linear_fixed"};
bool stateless(std::string const &t) { return t == "harm_fixed" || t == "walls_fixed" || t == "linear_fixed" || t == "harm_cmove"; }
bool nonbiasing(std::string const &t) { return t == "histogram" || t == "abf_noapply"; }

J gen(uint64_t seed, bool thorough) {
  Rng r(seed, 8);
  EngineCfg ec;
  ec.natoms = (int)r.range(10, 16);
  ec.data_seed = r.next() >> 12; ec.noise_seed = r.next() >> 12;
  ec.dt = 1.0; ec.temperature = 300.0; ec.forces_late = r.chance(0.5);
  ec.traj_amp = r.uniform(0.4, 1.0);
  TrajModel m; m.build(ec.data_seed, ec.natoms, ec.traj_amp, ec.force_amp, false);
  long T = thorough ? 60 : 36;
  J plan = J::obj();
  plan["v"] = 1; plan["property"] = "C08"; plan["seed"] = (long long)seed;
  J sc = J::obj();
  J e = J::obj(); ec.to_json(e); sc["engine"] = e;
  sc["config"] = global_config(1, 0, false);
  sc["T"] = (long long)T;
  static const char *kinds[] = {"distance", "distanceZ", "dihedral", "angle", "distanceXY"};
  int ncv = (int)r.range(1, 3);
  // a bias that reads lagged total forces also sees what the biases of OTHER variables did to shared atoms (a real coupling,
  // not a failure of superposition): with lagged forces ABF is only generated next to biases on the same single variable
  bool want_abf = r.chance(0.35);
  if (want_abf && ec.forces_late) ncv = 1;
  std::vector<CvSpec> cvs; std::vector<std::pair<double, double>> ranges;
  for (int i = 0; i < ncv; i++) {
    CvSpec c = make_cv(r, ec.natoms, kinds[r.below(5)], "v" + std::to_string(i));
    place_grid(c, m, T, r, (int)r.range(5, 10), 1.3);
    double lo, hi; cv_range(c, m, T, lo, hi);
    // every variable subtracts its own applied force from the lagged total force: the documented coupling under which
    // a bias that reads total forces (ABF) does not see the other biases
    c.extra += "  subtractAppliedForce on\n";
    cvs.push_back(c); ranges.push_back({lo, hi});
  }
  int nb = (int)r.range(2, 4);
  J biases = J::arr(); std::string sig;
  for (int b = 0; b < nb; b++) {
    std::string t, name = "b" + std::to_string(b);
    for (;;) {
      t = k_tmpl[r.below(sizeof k_tmpl / sizeof *k_tmpl)];
      if (b == 0 && want_abf) t = r.chance(0.6) ? "abf" : "abf_noapply";
      else if (t == "abf" || t == "abf_noapply") continue;
      std::string ct = t == "abf_noapply" ? "abf" : t;
      int k = std::min<int>(ncv, std::min(2, bias_template_max_cv(ct)));
      if (ct == "abf") k = 1;
      k = (int)r.range(1, k);
      std::vector<size_t> idx; for (size_t q = 0; q < cvs.size(); q++) idx.push_back(q);
      for (size_t q = idx.size() - 1; q > 0; q--) std::swap(idx[q], idx[r.below(q + 1)]);
      idx.resize((size_t)k);
      bool per = false; for (size_t q : idx) per = per || cvs[q].periodic();
      if (per && (t.rfind("linear", 0) == 0 || t.rfind("walls", 0) == 0)) continue;
      std::vector<CvSpec> sub; std::vector<std::pair<double, double>> rg;
      for (size_t q : idx) { sub.push_back(cvs[q]); rg.push_back(ranges[q]); }
      std::string cfg = make_bias(ct, r, sub, rg, T, name).config; size_t p;
      while ((p = cfg.find("  writeTI")) != std::string::npos) cfg.erase(p, cfg.find('\n', p) - p + 1);
      if ((p = cfg.find("  timeStepFactor")) != std::string::npos) cfg.erase(p, cfg.find('\n', p) - p + 1);
      if (t == "abf_noapply") { size_t q = cfg.rfind("}"); cfg.insert(q, "  applyBias off\n"); }
      if (ct == "abf") { while ((p = cfg.find("  historyFreq")) != std::string::npos) cfg.erase(p, cfg.find('\n', p) - p + 1); while ((p = cfg.find("  outputFreq")) != std::string::npos) cfg.erase(p, cfg.find('\n', p) - p + 1); if ((p = cfg.find("  hideJacobian")) != std::string::npos) cfg.erase(p, cfg.find('\n', p) - p + 1); }
      int tsf = 1;
      if (ct != "abf" && r.chance(0.35)) tsf = (int)r.range(2, 4);
      J bj = J::obj(); bj["name"] = name; bj["tmpl"] = t; bj["config"] = cfg; bj["tsf"] = tsf;
      biases.push(bj); sig += t.substr(0, 2) + std::to_string(tsf);
      break;
    }
  }
  std::string cvtext; for (auto const &c : cvs) cvtext += c.config();
  sc["cvs"] = cvtext; sc["biases"] = biases;
  J ops = J::arr();
  long left = T; int nseg = (int)r.range(1, 4);
  for (int s = 0; s < nseg && left > 0; s++) {
    long n = s == nseg - 1 ? left : r.range(1, std::max<long>(1, left - (nseg - 1 - s)));
    J op = J::obj(); op["w"] = 0; op["op"] = "run"; op["n"] = (long long)n; ops.push(op); left -= n; sig += "r";
    if (s < nseg - 1 && r.chance(0.5)) {
      J o2 = J::obj(); o2["w"] = 0; o2["op"] = r.chance(0.65) ? "off" : "on"; { // mostly biases without timeStepFactor (switching an MTS bias is a recorded finding that ends the comparison early)
        std::vector<int> plain, mts; for (int q = 0; q < nb; q++) (biases.a[(size_t)q].at("tsf").as_int(1) > 1 ? mts : plain).push_back(q);
        std::vector<int> const &from = (!plain.empty() && (mts.empty() || r.chance(0.88))) ? plain : mts;
        o2["bias"] = "b" + std::to_string(from[r.below(from.size())]); } ops.push(o2); sig += o2.at("op").as_str() == "off" ? "x" : "o";
    }
    // the live module reloads its own state (the counter of steps since the last (re)start begins again: nothing observable may change)
    if (s < nseg - 1 && r.chance(0.35)) { J o3 = J::obj(); o3["w"] = 0; o3["op"] = "reload"; ops.push(o3); sig += "l"; }
  }
  sc["template"] = sig.size() > 24 ? sig.substr(0, 24) : sig;
  plan["scenario"] = sc;
  plan["ops"] = ops;
  return plan;
}

struct Trace { std::vector<StepRec> recs; std::vector<std::vector<bool>> active; std::vector<std::string> order; std::vector<std::string> errmsg; std::string err; };

// run the plan with the biases in `subset` only; tsf1: override timeStepFactor to 1
Trace execute(J const &plan, std::vector<size_t> const &subset, bool tsf1, RunResult &res) {
  Trace out;
  EngineCfg ec; std::string config; long T;
  J const &sc = plan.at("scenario");
  scenario_from_json(sc, ec, config, T);
  std::unique_ptr<Engine> e(new Engine(ec));
  std::string conf = config + sc.at("cvs").as_str();
  std::vector<std::string> names;
  for (size_t q : subset) {
    J const &b = sc.at("biases").a[q];
    std::string cfg = b.at("config").as_str();
    long tsf = (long)b.at("tsf").as_int(1);
    if (tsf > 1 && !tsf1) { size_t p = cfg.rfind("}"); cfg.insert(p, "  timeStepFactor " + std::to_string(tsf) + "\n"); }
    conf += cfg; names.push_back(b.at("name").as_str());
  }
  e->halt_on_error = false;
  if (e->configure(conf) != COLVARS_OK || cvm::get_error()) { out.err = "configuration refused: " + e->last_error(); return out; }
  Engine *ep = e.get();
  for (colvarbias *b : ep->colvars->biases) out.order.push_back(b->name);   // (the module orders biases by type, not by definition)
  e->after_step = [&](long) {
    std::vector<bool> act; for (colvarbias *b : ep->colvars->biases) act.push_back(b->is_enabled());
    out.active.push_back(act);
    out.errmsg.push_back(ep->rec.back().err ? ep->last_error() : std::string());
  };
  for (auto const &op : plan.at("ops").a) {
    std::string k = op.at("op").as_str();
    cvm::clear_error();
    if (k == "run") e->run((int)op.at("n").as_int(1), false);
    else if (k == "off" || k == "on") {
      std::string b = op.at("bias").as_str();
      if (std::find(names.begin(), names.end(), b) != names.end()) { e->run_script({"cv", "bias", b, "set", "active", k == "on" ? "1" : "0"}); if (subset.size() > 1) res.counters["fault.bias_switched_off_or_on"]++; }
    } else if (k == "reload") {
      if (e->rec.empty()) continue;
      std::string st; if (e->run_script({"cv", "savetostring"}, &st) == COLVARS_OK) e->run_script({"cv", "loadfromstring", st});
      cvm::clear_error();
      if (subset.size() > 1) res.counters["fault.live_reload"]++;
    }
  }
  out.recs = e->rec;
  add_steps(res, *e);
  return out;
}

bool close_enough(double a, double b, double scale, double rtol, double atol) { return std::fabs(a - b) <= atol + rtol * scale; }

RunResult run(J const &plan) {
  RunResult res;
  J const &bl = plan.at("scenario").at("biases");
  size_t nb = bl.size();
  std::vector<size_t> all; for (size_t i = 0; i < nb; i++) all.push_back(i);
  Trace full;
  { SimRun sim(1); full = execute(plan, all, false, res); sim.finish(res); }
  if (!full.err.empty()) { res.counters["probe.configuration_refused"]++; res.detail = full.err; return res; }
  std::vector<Trace> alone(nb);
  for (size_t i = 0; i < nb; i++) {
    SimRun sim(1); alone[i] = execute(plan, {i}, false, res); sim.finish(res);
    if (!alone[i].err.empty()) { res.counters["probe.configuration_refused"]++; res.detail = alone[i].err; return res; }
    if (alone[i].recs.size() != full.recs.size()) { res.fail("superposition", "step_count", "bias " + bl.a[i].at("name").as_str() + " alone: " + std::to_string(alone[i].recs.size()) + " steps, together " + std::to_string(full.recs.size())); return res; }
  }
  std::string feats;
  { std::set<std::string> ts; for (auto const &b : bl.a) ts.insert(b.at("tmpl").as_str() + (b.at("tsf").as_int(1) > 1 ? "@mts" : "")); for (auto const &t : ts) feats += (feats.empty() ? "" : "+") + t; }
  res.features = feats + (plan.at("scenario").at("engine").at("forces_late").as_bool() ? "+late" : "+same_step");
  long compared = 0, zero_checks = 0, mts_checks = 0;
  // with lagged forces ABF recovers the system force as (system + Colvars' forces) - Colvars' forces: the rounding error of that
  // difference scales with the OTHER biases' forces, not with ABF's own small numbers
  bool abf_late = plan.at("scenario").at("engine").at("forces_late").as_bool() && feats.find("abf") != std::string::npos;
  double const rt = abf_late ? 1e-7 : 1e-10, at_e = abf_late ? 1e-9 : 1e-12, at_f = abf_late ? 1e-9 : 1e-11;
  // first record at which a run raised the library's restart-consistency error (see below); npos = never
  auto jump_at = [](Trace const &t) { for (size_t q = 0; q < t.errmsg.size(); q++) if (t.errmsg[q].find("differs greatly from the value") != std::string::npos) return q; return (size_t)-1; };
  std::vector<size_t> jump_from(nb); size_t jump_full = jump_at(full), jump_any = jump_full;
  for (size_t i = 0; i < nb; i++) { jump_from[i] = jump_at(alone[i]); jump_any = std::min(jump_any, jump_from[i]); }
  if (jump_any != (size_t)-1) res.counters["probe.runs_cut_short_by_restart_consistency_error"]++;
  // the switch state each bias should have: what the script asked for, and awake only on multiples of its factor
  {
    std::vector<bool> user_on(nb, true);
    size_t s = 0; bool first_run = true;
    bool has_switch_mts = false;
    for (auto const &op : plan.at("ops").a) {
      std::string k = op.at("op").as_str();
      if (k == "run") {
        long n = (long)op.at("n").as_int(1); long cnt = first_run ? n + 1 : n + 1; first_run = false;
        for (long q = 0; q < cnt && s < full.recs.size() && !res.violation; q++, s++) {
          for (size_t i = 0; i < nb && !res.violation; i++) {
            long tsf = (long)bl.a[i].at("tsf").as_int(1);
            bool expect = user_on[i] && (tsf == 1 || full.recs[s].step % tsf == 0);
            // a variable whose only bias sleeps keeps a stale value; a state saved then makes the library's own consistency test
            // ("differs greatly from the value last read") fire at the next evaluation: that run is not judged from there on
            if (jump_from[i] <= s) continue;
            bool got = s < alone[i].active.size() && !alone[i].active[s].empty() && alone[i].active[s][0];
            { size_t q = std::find(full.order.begin(), full.order.end(), bl.a[i].at("name").as_str()) - full.order.begin();
              if (jump_full > s && q < full.order.size() && s < full.active.size() && q < full.active[s].size() && full.active[s][q] != expect) {
                res.fail("activity", std::string(full.active[s][q] ? "active_although_" : "inactive_although_") + (!user_on[i] ? "switched_off" : (expect ? "should_be_awake" : "asleep")) + (tsf > 1 ? "/mts" : "/plain") + "/together",
                         "step " + std::to_string(full.recs[s].step) + " (record " + std::to_string(s) + "): bias " + bl.a[i].at("name").as_str() + " (timeStepFactor " + std::to_string(tsf) + ") is " + (full.active[s][q] ? "active" : "inactive") + " in the run with all biases");
                break;
              } }
            if (expect != got) {
              std::string why = !user_on[i] ? "switched_off" : (expect ? "should_be_awake" : "asleep");
              res.fail("activity", std::string(got ? "active_although_" : "inactive_although_") + why + (tsf > 1 ? "/mts" : "/plain"),
                       "step " + std::to_string(full.recs[s].step) + " (record " + std::to_string(s) + "): bias " + bl.a[i].at("name").as_str() + " (timeStepFactor " + std::to_string(tsf) + ") is " + (got ? "active" : "inactive") + "; the script last switched it " + (user_on[i] ? "on" : "off"));
            }
          }
        }
      } else if (k == "off" || k == "on") {
        size_t i = (size_t)atoi(op.at("bias").as_str().c_str() + 1);
        if (i < nb) { user_on[i] = k == "on"; if (bl.a[i].at("tsf").as_int(1) > 1) has_switch_mts = true; }
      }
    }
    if (has_switch_mts) res.features += "+switch@mts";
  }
  uint64_t fp = 1469598103934665603ULL;
  double fa_max = 0;   // largest force on a variable seen so far in the run with all biases
  for (size_t s = 0; s < full.recs.size() && !res.violation; s++) {
    StepRec const &A = full.recs[s];
    std::string at = "step " + std::to_string(A.step) + " (record " + std::to_string(s) + ")";
    if (s >= jump_any) break;
    if (A.err) { res.fail("superposition", s < full.errmsg.size() && full.errmsg[s].find("cannot decrease reference count of feature \"active\"") != std::string::npos ? "step_error/active_reference_count" : "step_error", at + ": error bits " + std::to_string(A.err) + ": " + (s < full.errmsg.size() ? full.errmsg[s] : "")); break; }
    size_t nf = A.fapp.size();
    for (double v : A.cv_fa) fa_max = std::max(fa_max, std::fabs(v));
    std::vector<double> sum(nf, 0.0); double esum = 0, scale = 0, escale = 0;
    for (size_t i = 0; i < nb; i++) {
      StepRec const &B = alone[i].recs[s];
      if (B.err) { res.fail("superposition", "step_error_alone", at + ": bias " + bl.a[i].at("name").as_str() + " alone: error bits " + std::to_string(B.err)); break; }
      for (size_t c = 0; c < nf; c++) { sum[c] += B.fapp[c]; scale = std::max(scale, std::fabs(B.fapp[c])); }
      esum += B.energy; escale = std::max(escale, std::fabs(B.energy));
      std::string t = bl.a[i].at("tmpl").as_str(); long tsf = (long)bl.a[i].at("tsf").as_int(1);
      bool off = s < alone[i].active.size() && !alone[i].active[s].empty() && !alone[i].active[s][0];
      // its own energy is the same alone and together
      if (getenv("CVSIM_DEBUG") && !B.bias_e.empty()) { size_t ja = (size_t)(std::find(full.order.begin(), full.order.end(), bl.a[i].at("name").as_str()) - full.order.begin()); if (ja < A.bias_e.size()) fprintf(stderr, "step %ld bias %s together %.17g alone %.17g  ft together %.17g alone %.17g  fa together %.17g alone %.17g\n", A.step, bl.a[i].at("name").as_str().c_str(), A.bias_e[ja], B.bias_e[0], A.cv_ft.empty() ? 0 : A.cv_ft[0], B.cv_ft.empty() ? 0 : B.cv_ft[0], A.cv_fa.empty() ? 0 : A.cv_fa[0], B.cv_fa.empty() ? 0 : B.cv_fa[0]); }
      size_t ia = (size_t)(std::find(full.order.begin(), full.order.end(), bl.a[i].at("name").as_str()) - full.order.begin());
      // (lagged forces: ABF's samples are the difference of the measured projection and the remembered applied force of ALL biases; its
      //  rounding, amplified by the conditioning of the inverse gradients - 8e-9 relative was observed on a dihedral - scales with the largest
      //  force any bias put on a variable so far, not with ABF's own small numbers)
      double at_e_eff = at_e + (abf_late ? 1e-7 * fa_max : 0.0);
      if (ia < A.bias_e.size() && !B.bias_e.empty() && !close_enough(A.bias_e[ia], B.bias_e[0], std::max(std::fabs(A.bias_e[ia]), std::fabs(B.bias_e[0])), rt, at_e_eff)) {
        res.fail("superposition", "bias_energy_depends_on_other_biases/" + t, at + ": energy of " + bl.a[i].at("name").as_str() + " = " + fmt_double(A.bias_e[ia]) + " together, " + fmt_double(B.bias_e[0]) + " alone"); break; }
      // contributes nothing: non-biasing, switched off, or asleep
      bool asleep = tsf > 1 && (A.step % tsf) != 0;
      if (nonbiasing(t) || off || asleep) {
        zero_checks++;
        for (size_t c = 0; c < nf; c++) if (B.fapp[c] != 0.0) { res.fail("zero_contribution", std::string(nonbiasing(t) ? "nonbiasing" : off ? "switched_off" : "asleep") + "_bias_applies_force/" + t, at + ": bias " + bl.a[i].at("name").as_str() + " alone applies force component " + std::to_string(c) + " = " + fmt_double(B.fapp[c])); break; }
        if (!res.violation && (nonbiasing(t) || off) && B.energy != 0.0 && t != "abf_noapply") { res.fail("zero_contribution", std::string(nonbiasing(t) ? "nonbiasing" : "switched_off") + "_bias_adds_energy/" + t, at + ": bias " + bl.a[i].at("name").as_str() + " alone reports energy " + fmt_double(B.energy)); }
        if (res.violation) break;
      }
    }
    if (res.violation) break;
    for (size_t c = 0; c < nf; c++) if (!close_enough(A.fapp[c], sum[c], scale, rt, at_f + (abf_late ? 1e-7 * fa_max * (1.0 + scale) : 0.0))) {
      res.fail("superposition", "atom_force", at + ": force component " + std::to_string(c) + " = " + fmt_double(A.fapp[c]) + " together, sum of the single-bias runs " + fmt_double(sum[c])); break; }
    if (res.violation) break;
    if (!close_enough(A.energy, esum, escale, rt, at_f + (abf_late ? 1e-7 * fa_max : 0.0))) { res.fail("superposition", "energy", at + ": energy " + fmt_double(A.energy) + " together, sum of the single-bias runs " + fmt_double(esum)); break; }
    compared++;
    fp = fnv_dbl(A.energy, fp);
  }
  // impulse conservation: factor-n bias vs its factor-1 twin
  for (size_t i = 0; i < nb && !res.violation; i++) {
    std::string t = bl.a[i].at("tmpl").as_str(); long tsf = (long)bl.a[i].at("tsf").as_int(1);
    if (tsf <= 1 || !stateless(t)) continue;
    Trace one;
    { SimRun sim(1); one = execute(plan, {i}, true, res); sim.finish(res); }
    if (!one.err.empty() || one.recs.size() != alone[i].recs.size()) continue;
    for (size_t s = 0; s < one.recs.size() && s < jump_from[i] && s < jump_at(one) && !res.violation; s++) {
      StepRec const &B = alone[i].recs[s], &C = one.recs[s];
      bool off = s < alone[i].active.size() && !alone[i].active[s].empty() && !alone[i].active[s][0];
      if (off || (B.step % tsf) != 0) continue;
      double scale = 0; for (double v : C.fapp) scale = std::max(scale, std::fabs(v) * (double)tsf);
      for (size_t c = 0; c < B.fapp.size(); c++) if (!close_enough(B.fapp[c], (double)tsf * C.fapp[c], scale, 1e-12, 1e-13)) {
        std::string phase;
        { std::string cfg = bl.a[i].at("config").as_str(); size_t p = cfg.find("targetNumSteps "); if (p != std::string::npos) { long tn = atol(cfg.c_str() + p + 15); phase = B.step > tn - (tn % tsf) ? "/after_last_awake_step_of_schedule" : "/during_schedule"; } }
        res.fail("impulse", "mts_force_not_n_times_instantaneous/" + t + phase, "step " + std::to_string(B.step) + ": bias " + bl.a[i].at("name").as_str() + " with timeStepFactor " + std::to_string(tsf) + " applies force component " + std::to_string(c) + " = " + fmt_double(B.fapp[c]) + ", " + std::to_string(tsf) + " x its factor-1 twin = " + fmt_double((double)tsf * C.fapp[c])); break; }
      mts_checks++;
    }
  }
  res.counters["probe.steps_compared"] += compared;
  res.counters["probe.zero_contribution_checks"] += zero_checks;
  res.counters["probe.mts_steps_compared"] += mts_checks;
  res.nontrivial = compared > 0;
  res.class_hash = fnv_str(plan.at("scenario").at("template").as_str(), 8);
  res.fingerprint = fnv_u64(fp, res.fingerprint);
  return res;
}

Property make() {
  Property p;
  p.id = "C08"; p.level = "exploration"; p.design_ref = "DESIGN.md §7 C08";
  p.rule = "plan = 1-3 variables (5 kinds, subtractAppliedForce on), 2-4 biases out of 12 templates (1-2 variables each; 35% with timeStepFactor 2-4), 36-60 steps in 1-4 run segments with biases switched off/on "
           "through the script interface between segments, same-step or lagged total forces; references = each bias alone, and factor-1 twins of stateless factor-n biases; "
           "non-trivial = at least one step compared; distinct = hash of (templates with factors, segmentation and switches)";
  p.rule += " Later additions: the live module may reload its own state between segments; the activity oracle reads the run with all biases.";
  p.rule += " Fifth round: ABF-with-lagged-forces tolerances carry a term proportional to the largest force any bias put on a variable.";
  p.assumptions = {"kinematic positions: a bias cannot reach another through the atoms; lagged total forces contain Colvars' own forces of the previous step and every variable has subtractAppliedForce on (the documented coupling for ABF next to other biases)",
                   "sums are compared at rtol 1e-10 of the largest term (different summation order), zero contributions and the factor n exactly (1e-12)",
                   "ABF only on one variable and without timeStepFactor; the energy of 'abf applyBias off' is not required to be zero (it reports its PMF estimate)"};
  p.real_components = {"colvarmodule::calc_biases/update_bias_forces/update_colvar_forces", "colvarbias::communicate_forces (MTS scaling)", "colvar::update_forces_energy/communicate_forces, f_old/subtractAppliedForce", "awake/active feature handling", "all bias types of the catalogue"};
  p.stub_components = {"MD engine (kinematic, lagged or same-step force delivery)", "file system (sim::FS)"};
  p.gen = gen; p.run = run;
  p.quick_runs = 3000; p.thorough_runs = 80000; p.quick_secs = 70; p.thorough_secs = 900;
  return p;
}
Registrar reg(make());

}  // namespace
