// C15 — every sample lands in exactly one grid bin and grid files round-trip.
//
// Workload: a histogram over 1-3 scalar variables (5 kinds).  For part of the non-periodic
// variables the grid boundaries are set, to the last bit, to values the variable itself takes
// during the run (found by a probe pass), so that samples fall exactly on the lower boundary, on
// the upper boundary and on interior bin edges; the others get grids narrower or wider than the
// visited range.  The run is cut into segments and, at seeded points, stopped and restarted
// through the state file (text or binary); output frequency drawn per run.
// Reference: a dictionary histogram: bin i = floor((x - lower)/width) of the value the variable
// reports, wrapped for a periodic variable, no bin outside [0, n); a step is eligible unless it
// is the first evaluation of a run or of an instance (the run-boundary rule).
// Oracle: after every step the grid in the bias's saved state equals the dictionary (so the sum of
// counts equals the number of in-range eligible samples); after a restart it still does; the
// multicolumn file written at the end, read back, announces the configured dimensions, lower
// boundaries, widths, sizes and periodicity flags and holds the same data, bin centres included.
#include "simrun.h"
#include "scenario.h"

#include <cmath>
#include <memory>
#include <set>
#include <sstream>

using namespace sim;

namespace {

std::string full(double v) { char b[64]; snprintf(b, sizeof b, "%.17g", v); return b; }

J gen(uint64_t seed, bool thorough) {
  Rng r(seed, 15);
  EngineCfg ec;
  ec.natoms = (int)r.range(10, 16);
  ec.data_seed = r.next() >> 12; ec.noise_seed = r.next() >> 12;
  ec.dt = 1.0; ec.temperature = 300.0; ec.forces_late = false;
  ec.traj_amp = r.uniform(0.4, 1.2);
  ec.binary_state = r.chance(0.3);
  TrajModel m; m.build(ec.data_seed, ec.natoms, ec.traj_amp, ec.force_amp, false);
  long T = thorough ? 120 : 60;
  J plan = J::obj();
  plan["v"] = 1; plan["property"] = "C15"; plan["seed"] = (long long)seed;
  J sc = J::obj();
  J e = J::obj(); ec.to_json(e); sc["engine"] = e;
  sc["config"] = global_config(1, 0, false);
  sc["T"] = (long long)T;
  static const char *kinds[] = {"distance", "distanceZ", "dihedral", "angle", "distanceXY"};
  int ncv = (int)r.range(1, 3);
  J jcv = J::arr(); std::string sig;
  bool vector_mode = r.chance(0.03);
  sc["vector"] = vector_mode;
  if (vector_mode) {
    // one vector-valued variable (all pair distances between two groups), gathered element by element with weights
    ncv = 0;
    std::vector<std::vector<int>> g = pick_groups(r, ec.natoms, 2, 3);
    auto grp = [&](std::vector<int> const &v) { std::string t; for (int a : v) t += " " + std::to_string(a + 1); return t; };
    sc["vec_base"] = "colvar {\n  name v0\n  width 1\n  distancePairs {\n    group1 { atomNumbers" + grp(g[0]) + " }\n    group2 { atomNumbers" + grp(g[1]) + " }\n  }\n}\n";
    size_t n = g[0].size() * g[1].size();
    static const double wv[] = {1, 2, 0.5, 0.25, 3};
    J w = J::arr(); bool use_w = r.chance(0.6); for (size_t i = 0; i < n; i++) w.push(use_w ? wv[r.below(5)] : 1.0);
    sc["weights"] = w; sc["use_weights"] = use_w; sc["vec_nbins"] = (long long)r.range(3, 9); sc["vec_cover"] = r.uniform(0.5, 1.2);
    sig += "vec" + std::to_string(n) + (use_w ? "w" : "") + "+";
  }
  for (int i = 0; i < ncv; i++) {
    CvSpec c = make_cv(r, ec.natoms, kinds[r.below(5)], "v" + std::to_string(i));
    place_grid(c, m, T, r, (int)r.range(3, 9), r.uniform(0.5, 1.3));
    c.has_bounds = false;   // boundaries are written by run() (possibly from observed values)
    J o = J::obj(); o["name"] = c.name; o["periodic"] = c.periodic(); o["base"] = c.config();
    o["width"] = strtod(num(c.width).c_str(), nullptr); o["lower"] = strtod(num(c.lower).c_str(), nullptr); o["upper"] = strtod(num(c.upper).c_str(), nullptr);
    bool edges = !c.periodic() && r.chance(0.45);
    o["hard_lo"] = !c.periodic() && r.chance(0.25); o["hard_hi"] = !c.periodic() && r.chance(0.25);   // hard boundaries say nothing about binning
    o["edges"] = edges; o["t_lo"] = (long long)r.range(1, T); o["t_hi"] = (long long)r.range(1, T); o["nbins"] = (long long)r.range(2, 8);
    jcv.push(o); sig += c.kind.substr(0, 4) + (edges ? "E" : "") + "+";
  }
  sc["cvinfo"] = jcv;
  sc["custom_grid"] = !vector_mode && r.chance(0.25);   // the histogram brings its own grid, one bin short of the variables' on either side
  sc["out_freq"] = (long long)(r.chance(0.5) ? 0 : r.range(1, 10));
  sc["dx"] = r.chance(0.3);
  J ops = J::arr();
  long left = T; int nseg = (int)r.range(1, 4);
  bool scaled_once = false;
  for (int s = 0; s < nseg && left > 0; s++) {
    long n = s == nseg - 1 ? left : r.range(1, std::max<long>(1, left - (nseg - 1 - s)));
    J op = J::obj(); op["w"] = 0; op["op"] = "run"; op["n"] = (long long)n; ops.push(op); left -= n; sig += "r";
    if (s < nseg - 1 && r.chance(0.5)) {
      J o2 = J::obj(); o2["w"] = 0; o2["op"] = "restart";
      // a third of the restarts through a text state continue "a run a million times as long": every count in the state file is multiplied
      // by a large odd factor before it is loaded (counts of a long run have more significant digits than those of 100 steps)
      if (!ec.binary_state && !scaled_once && r.chance(0.35)) { scaled_once = true; static const long long ks[] = {1000003LL, 12345679LL, 1000000007LL}; o2["scale"] = ks[r.below(3)]; sig += "L"; }
      ops.push(o2); sig += "S";
    }
  }
  // a third of the plans add a restraint that collects thermodynamic-integration samples on the variables' own grid: its count grid
  // must hold the same eligible samples as the histogram (not together with scaled state counts)
  bool ti = !vector_mode && !scaled_once && r.chance(0.33);
  sc["ti"] = ti; if (ti) sig += "/ti";
  sc["template"] = sig + (ec.binary_state ? "/bin" : "/txt");
  plan["scenario"] = sc;
  plan["ops"] = ops;
  return plan;
}

struct Dim { std::string name; bool periodic; double lower, width, upper; int n; };

bool close_enough(double a, double b, double rtol, double atol) { return std::fabs(a - b) <= atol + rtol * std::max(std::fabs(a), std::fabs(b)); }

RunResult run(J const &plan) {
  RunResult res;
  J const &sc = plan.at("scenario");
  EngineCfg ec; std::string config; long T;
  scenario_from_json(sc, ec, config, T);
  J const &jcv = sc.at("cvinfo");
  size_t nd = jcv.size();
  bool vector_mode = sc.at("vector").as_bool();
  std::vector<double> weights; if (vector_mode) { for (auto const &w : sc.at("weights").a) weights.push_back(w.as_num()); nd = 1; }
  std::vector<double> vec_seen; std::string vec_grid;
  // ---- probe pass: the values the library itself computes along the trajectory
  std::vector<std::vector<double>> seen(nd);
  {
    SimRun sim(1);
    std::unique_ptr<Engine> e(new Engine(ec));
    std::string conf = config; for (auto const &o : jcv.a) conf += o.at("base").as_str();
    if (vector_mode) conf += sc.at("vec_base").as_str();
    if (e->configure(conf) != COLVARS_OK || cvm::get_error()) { res.counters["probe.configuration_refused"]++; return res; }
    e->run((int)T, false);
    if (vector_mode) { for (auto const &r : e->rec) for (double v : r.cv) vec_seen.push_back(v); }
    else for (auto const &r : e->rec) for (size_t i = 0; i < nd; i++) seen[i].push_back(r.cv[(size_t)r.cv_off[i]]);
  }
  // ---- grids
  std::vector<Dim> dims; std::string cvtext, names;
  long edge_dims = 0;
  for (size_t i = 0; i < jcv.size(); i++) {
    J const &o = jcv.a[i];
    Dim d; d.name = o.at("name").as_str(); d.periodic = o.at("periodic").as_bool(); d.lower = o.at("lower").as_num(); d.width = o.at("width").as_num(); d.upper = o.at("upper").as_num();
    if (o.at("edges").as_bool()) {
      double a = seen[i][(size_t)o.at("t_lo").as_int() % seen[i].size()], b = seen[i][(size_t)o.at("t_hi").as_int() % seen[i].size()];
      if (a > b) std::swap(a, b);
      long nb = (long)o.at("nbins").as_int();
      if (b - a > 1e-6) { d.lower = a; d.upper = b; d.width = (b - a) / (double)nb; edge_dims++; }
    }
    d.n = (int)std::floor((d.upper - d.lower) / d.width + 0.5);
    std::string base = o.at("base").as_str();
    size_t p = base.find("  width"); size_t q = base.find('\n', p);
    base.replace(p, q - p, "  width " + full(d.width) + "\n  lowerBoundary " + full(d.lower) + "\n  upperBoundary " + full(d.upper) +
                 (o.at("hard_lo").as_bool() ? "\n  hardLowerBoundary on" : "") + (o.at("hard_hi").as_bool() ? "\n  hardUpperBoundary on" : ""));
    cvtext += base; names += (i ? " " : "") + d.name;
    dims.push_back(d);
  }
  std::string custom_grid;
  if (sc.at("custom_grid").as_bool()) {
    bool ok = true; for (auto const &d : dims) if (d.periodic || d.n < 3) ok = false;
    if (ok) {
      std::string ws, ls, us;
      // each dimension is either cut by one bin on both sides or left as the variable defines it (at least one is cut)
      uint64_t pick = (uint64_t)plan.at("seed").as_int() ^ 0x9e3779b97f4a7c15ULL; size_t cut = 0, qd = 0;
      std::vector<bool> change(dims.size());
      for (size_t q = 0; q < dims.size(); q++) { change[q] = (pick >> (7 * q + 3)) & 1; if (change[q]) cut++; }
      if (!cut) change[(pick >> 40) % dims.size()] = true;
      for (auto &d : dims) { if (change[qd++]) { d.lower = d.lower + d.width; d.upper = d.upper - d.width; d.n -= 2; } ws += " " + full(d.width); ls += " " + full(d.lower); us += " " + full(d.upper); d.n = (int)std::floor((d.upper - d.lower) / d.width + 0.5); }
      custom_grid = "  histogramGrid {\n    width" + ws + "\n    lowerBoundary" + ls + "\n    upperBoundary" + us + "\n  }\n";
    }
  }
  if (vector_mode) {
    double lo = vec_seen[0], hi = vec_seen[0]; for (double v : vec_seen) { lo = std::min(lo, v); hi = std::max(hi, v); }
    long nb = (long)sc.at("vec_nbins").as_int(); double cover = sc.at("vec_cover").as_num();
    double mid = 0.5 * (lo + hi), half = 0.5 * (hi - lo) * cover;
    Dim d; d.name = "v0"; d.periodic = false; d.lower = strtod(num(mid - half).c_str(), nullptr); d.width = strtod(num(2 * half / (double)nb).c_str(), nullptr); d.upper = d.lower + d.width * (double)nb; d.n = (int)nb;
    // (a vector variable takes no boundaries of its own: the grid is given to the histogram)
    cvtext = sc.at("vec_base").as_str(); names = "v0"; dims.assign(1, d);
    vec_grid = "  histogramGrid {\n    width " + full(d.width) + "\n    lowerBoundary " + full(d.lower) + "\n    upperBoundary " + full(d.upper) + "\n  }\n";
    d.n = (int)std::floor((d.upper - d.lower) / d.width + 0.5); dims[0].n = d.n;
  }
  long out_freq = (long)sc.at("out_freq").as_int();
  std::string hist = "histogram {\n  name h\n  colvars " + names + "\n  outputFile h.dat\n" + (sc.at("dx").as_bool() ? "  outputFileDX h.dx\n" : "") + (out_freq ? "  outputFreq " + std::to_string(out_freq) + "\n" : "");
  hist += custom_grid;
  if (vector_mode) { hist += vec_grid; hist += "  gatherVectorColvars on\n"; if (sc.at("use_weights").as_bool()) { hist += "  weights"; for (double w : weights) hist += " " + num(w); hist += "\n"; } }
  hist += "}\n";
  bool ti = sc.has("ti") && sc.at("ti").as_bool() && custom_grid.empty() && !vector_mode;
  if (ti) {
    std::string c; for (auto const &d : dims) c += " " + full(d.lower + 0.5 * (d.upper - d.lower));
    hist += "harmonic {\n  name t\n  colvars " + names + "\n  centers" + c + "\n  forceConstant 0.01\n  writeTISamples on\n}\n";
  }
  std::string conf = config + cvtext + hist;
  SimRun sim(1);
  std::unique_ptr<Engine> e(new Engine(ec));
  if (e->configure(conf) != COLVARS_OK || cvm::get_error()) {
    if (vector_mode) { res.nontrivial = true; res.class_hash = fnv_str(sc.at("template").as_str(), 15); res.features = "vector"; res.fail("histogram", "vector_histogram_refused", "a histogram with gatherVectorColvars over a vector variable (documented) is refused: " + e->last_error()); sim.finish(res); return res; }
    res.counters["probe.configuration_refused"]++; res.detail = e->last_error(); sim.finish(res); return res;
  }
  // the library may have adjusted sizes: they must be what the configuration says
  std::map<std::vector<int>, double> model_w; double weight_in_range = 0;   // vector mode: weighted
  std::map<std::vector<int>, long> model; long eligible_in_range = 0, on_edge = 0, out_of_range = 0, steps_compared = 0, restarts = 0, ti_checks = 0;
  bool first_of_instance = true; long last_step = -1;
  auto hook = [&](Engine *ep) {
    ep->after_step = [&, ep](long step) {
      if (res.violation) return;
      StepRec const &r = ep->rec.back();
      std::string at = "step " + std::to_string(step) + (r.continuing ? " (repeated)" : "");
      if (r.err) { res.fail("histogram", "step_error", at + ": " + ep->last_error()); return; }
      bool eligible = !first_of_instance && !r.continuing && step != last_step && cvm::step_relative() > 0;
      first_of_instance = false; last_step = step;
      if (eligible && vector_mode) {
        for (size_t iv = 0; iv < r.cv.size(); iv++) {
          double q = (r.cv[iv] - dims[0].lower) / dims[0].width; long b = (long)std::floor(q);
          if (q == std::floor(q)) on_edge++;
          if (b < 0 || b >= dims[0].n) { out_of_range++; continue; }
          model_w[std::vector<int>{(int)b}] += iv < weights.size() ? weights[iv] : 1.0; weight_in_range += iv < weights.size() ? weights[iv] : 1.0; eligible_in_range++;
        }
      } else if (eligible) {
        std::vector<int> ix(nd); bool in = true;
        for (size_t i = 0; i < nd; i++) {
          double x = r.cv[(size_t)r.cv_off[i]];
          double q = (x - dims[i].lower) / dims[i].width;
          long b = (long)std::floor(q);
          if (q == std::floor(q)) on_edge++;
          if (dims[i].periodic) { b %= dims[i].n; if (b < 0) b += dims[i].n; }
          else if (b < 0 || b >= dims[i].n) in = false;
          ix[i] = (int)b;
        }
        if (in) { model[ix]++; eligible_in_range++; } else out_of_range++;
      }
      // the grid in the saved state
      std::string st; ep->run_script({"cv", "bias", "h", "savetostring"}, &st);
      size_t p = st.find("grid");
      if (p == std::string::npos) { res.fail("histogram", "state_without_grid", at); return; }
      std::istringstream is(st.substr(p + 4)); std::vector<double> data; double v; std::string tok;
      while (is >> tok) { char *end = nullptr; v = strtod(tok.c_str(), &end); if (end == tok.c_str() || *end) break; data.push_back(v); }
      size_t total = 1; for (auto const &d : dims) total *= (size_t)d.n;
      if (data.size() != total) { res.fail("histogram", "grid_size", at + ": the saved grid holds " + std::to_string(data.size()) + " numbers, the configured grid has " + std::to_string(total) + " bins"); return; }
      std::vector<int> ix(nd, 0); double sum = 0;
      for (size_t a = 0; a < total; a++) {
        auto it = model.find(ix); long mc = it == model.end() ? 0 : it->second;
        sum += data[a];
        if (vector_mode) {
          auto iw = model_w.find(ix); double mw = iw == model_w.end() ? 0.0 : iw->second;
          if (data[a] != mw) { res.fail("histogram", data[a] > mw ? "bin_overcounted/vector" : "bin_undercounted/vector", at + ": bin [" + std::to_string(ix[0]) + "] holds " + fmt_double(data[a]) + ", the weights of the eligible elements that fell into it add up to " + fmt_double(mw)); return; }
        } else
        if (data[a] != (double)mc) { std::string b; for (int q : ix) b += std::to_string(q) + " "; res.fail("histogram", data[a] > (double)mc ? "bin_overcounted" : "bin_undercounted", at + ": bin [" + b + "] holds " + fmt_double(data[a]) + ", " + std::to_string(mc) + " eligible samples fell into it"); return; }
        for (size_t i = nd; i-- > 0;) { if (++ix[i] < dims[i].n) break; ix[i] = 0; }
      }
      if (ti && !res.violation) {
        // the count grid of the TI estimator (same grid, same eligible steps: each sample in exactly one bin, once)
        std::string tst; ep->run_script({"cv", "bias", "t", "savetostring"}, &tst);
        size_t hp = tst.find("\nhistogram"), sp = tst.find("system_forces");
        if (hp != std::string::npos && sp != std::string::npos && sp > hp) {
          std::istringstream tis(tst.substr(hp + 10, sp - hp - 10)); std::vector<double> tc; double tv; while (tis >> tv) tc.push_back(tv);
          if (tc.size() != total) { res.fail("ti_samples", "grid_size", at + ": the TI count grid holds " + std::to_string(tc.size()) + " numbers, the variables' grid has " + std::to_string(total) + " bins"); return; }
          std::vector<int> jx(nd, 0); double tsum = 0;
          for (size_t a = 0; a < total; a++) {
            auto it = model.find(jx); long mc = it == model.end() ? 0 : it->second; tsum += tc[a];
            if (tc[a] != (double)mc) { std::string b; for (int q : jx) b += std::to_string(q) + " "; res.fail("ti_samples", tc[a] > (double)mc ? "bin_overcounted" : "bin_undercounted", at + ": TI count bin [" + b + "] holds " + fmt_double(tc[a]) + ", " + std::to_string(mc) + " eligible samples fell into it"); return; }
            for (size_t i = nd; i-- > 0;) { if (++jx[i] < dims[i].n) break; jx[i] = 0; }
          }
          ti_checks++;
        }
      }
      if (vector_mode ? sum != weight_in_range : sum != (double)eligible_in_range) { res.fail("histogram", "total_count", at + ": counts add up to " + fmt_double(sum) + ", " + std::to_string(eligible_in_range) + " in-range eligible samples so far"); return; }
      steps_compared++;
    };
  };
  hook(e.get());
  for (auto const &op : plan.at("ops").a) {
    if (res.violation) break;
    std::string k = op.at("op").as_str();
    cvm::clear_error();
    if (k == "run") e->run((int)op.at("n").as_int(1), true);
    else if (k == "restart") {
      if (e->rec.empty()) continue;
      long at_step = (long)cvm::step_absolute();
      e.reset();
      ModuleStatics().load();
      e.reset(new Engine(ec));
      if (e->configure(conf) != COLVARS_OK || cvm::get_error()) { res.counters["probe.configuration_refused"]++; break; }
      e->first_step = at_step;
      hook(e.get());
      if (op.has("scale") && !vector_mode) {
        long long K = op.at("scale").as_int(1); std::string st;
        if (fs().get("/simfs/w0/out.colvars.state", st)) {
          size_t hb = st.find("histogram {"), g = hb == std::string::npos ? hb : st.find("grid", hb), q = g == std::string::npos ? g : g + 4;
          if (q != std::string::npos) {
            std::string outnum; size_t pos = q; bool ok = true;
            for (;;) {
              while (pos < st.size() && isspace((unsigned char)st[pos])) pos++;
              if (pos >= st.size() || st[pos] == '}') break;
              char *end = nullptr; double v = strtod(st.c_str() + pos, &end);
              if (end == st.c_str() + pos) { ok = false; break; }
              char buf[64]; snprintf(buf, sizeof buf, " %.0f", v * (double)K); outnum += buf; pos = (size_t)(end - st.c_str());
            }
            if (ok) {
              st = st.substr(0, q) + "\n" + outnum + "\n" + st.substr(pos);
              fs().put("/simfs/w0/out.colvars.state", st);
              for (auto &kv : model) kv.second *= K;
              eligible_in_range *= K;
              res.counters["fault.state_counts_scaled_as_after_a_long_run"]++;
            }
          }
        }
      }
      if (e->load_state("/simfs/w0/out") != COLVARS_OK) { res.fail("histogram", "state_not_loaded", e->last_error()); break; }
      first_of_instance = true; last_step = -1; restarts++;
    }
  }
  if (!res.violation) e->end_run();
  add_steps(res, *e);
  e.reset();
  // ---- the multicolumn file
  long file_bins = 0;
  if (!res.violation && eligible_in_range > 0) {
    std::string text;
    if (!fs().get("/simfs/w0/h.dat", text)) res.fail("grid_file", "file_missing", "h.dat was not written although the histogram holds data");
    else {
      std::istringstream is(text); std::string line; std::vector<std::vector<double>> hdr; std::vector<std::vector<double>> rows; long ndim = -1;
      while (std::getline(is, line)) {
        if (line.empty()) continue;
        std::istringstream ls(line); std::string tok; std::vector<double> v; bool h = false;
        while (ls >> tok) { if (tok == "#") { h = true; continue; } v.push_back(strtod(tok.c_str(), nullptr)); }
        if (h) { if (ndim < 0 && v.size() == 1) ndim = (long)v[0]; else hdr.push_back(v); } else rows.push_back(v);
      }
      if (ndim != (long)nd || hdr.size() != nd) res.fail("grid_file", "header_dimensions", "h.dat announces " + std::to_string(ndim) + " dimensions with " + std::to_string(hdr.size()) + " header lines; the histogram has " + std::to_string(nd));
      for (size_t i = 0; i < nd && !res.violation; i++) {
        if (hdr[i].size() != 4) { res.fail("grid_file", "header_format", "dimension " + std::to_string(i)); break; }
        if (!close_enough(hdr[i][0], dims[i].lower, 1e-13, 1e-13) || !close_enough(hdr[i][1], dims[i].width, 1e-13, 1e-13) || (long)hdr[i][2] != dims[i].n || (hdr[i][3] != 0) != dims[i].periodic)
          res.fail("grid_file", "header_differs_from_configuration", "dimension " + std::to_string(i) + ": file says lower " + fmt_double(hdr[i][0]) + " width " + fmt_double(hdr[i][1]) + " n " + fmt_double(hdr[i][2]) + " periodic " + fmt_double(hdr[i][3]) + "; configured " + fmt_double(dims[i].lower) + " " + fmt_double(dims[i].width) + " " + std::to_string(dims[i].n) + " " + (dims[i].periodic ? "1" : "0"));
      }
      size_t total = 1; for (auto const &d : dims) total *= (size_t)d.n;
      if (!res.violation && rows.size() != total) res.fail("grid_file", "row_count", "h.dat has " + std::to_string(rows.size()) + " data lines for " + std::to_string(total) + " bins");
      std::vector<int> ix(nd, 0);
      for (size_t a = 0; a < rows.size() && !res.violation; a++) {
        if (rows[a].size() != nd + 1) { res.fail("grid_file", "column_count", "line " + std::to_string(a)); break; }
        for (size_t i = 0; i < nd; i++) { double c = dims[i].lower + dims[i].width * (0.5 + ix[i]); if (!close_enough(rows[a][i], c, 1e-12, 1e-12)) { res.fail("grid_file", "bin_centre", "line " + std::to_string(a) + ": coordinate " + fmt_double(rows[a][i]) + ", centre of bin " + std::to_string(ix[i]) + " is " + fmt_double(c)); break; } }
        if (res.violation) break;
        auto it = model.find(ix); long mc = it == model.end() ? 0 : it->second;
        if (vector_mode) { auto iw = model_w.find(ix); double mw = iw == model_w.end() ? 0.0 : iw->second; if (!close_enough(rows[a][nd], mw, 1e-13, 0)) { res.fail("grid_file", "data_differs/vector", "h.dat bin [" + std::to_string(ix[0]) + "] = " + fmt_double(rows[a][nd]) + ", weights add up to " + fmt_double(mw)); break; } }
        else if (rows[a][nd] != (double)mc) { std::string b; for (int q : ix) b += std::to_string(q) + " "; res.fail("grid_file", "data_differs", "h.dat bin [" + b + "] = " + fmt_double(rows[a][nd]) + ", " + std::to_string(mc) + " samples fell into it"); break; }
        file_bins++;
        for (size_t i = nd; i-- > 0;) { if (++ix[i] < dims[i].n) break; ix[i] = 0; }
      }
    }
  }
  sim.finish(res);
  res.counters["probe.steps_compared"] += steps_compared;
  res.counters["probe.samples_in_range"] += eligible_in_range;
  res.counters["probe.samples_out_of_range"] += out_of_range;
  res.counters["probe.samples_exactly_on_a_bin_edge"] += on_edge;
  res.counters["probe.dimensions_with_observed_boundaries"] += edge_dims;
  res.counters["probe.ti_count_grids_compared"] += ti_checks;
  res.counters["probe.restarts"] += restarts; res.counters["fault.stop_and_restart"] += restarts;
  res.counters["probe.file_bins_checked"] += file_bins;
  res.nontrivial = steps_compared > 0 && eligible_in_range > 0;
  res.class_hash = fnv_str(sc.at("template").as_str(), 15);
  res.features = std::string(vector_mode ? "vector" : "") + std::to_string(nd) + "d" + (custom_grid.empty() ? "" : "+customgrid") + (edge_dims ? "+edges" : "") + (restarts ? "+restart" : "") + (ec.binary_state ? "+binary" : "");
  uint64_t fp = 1469598103934665603ULL; fp = fnv_u64((uint64_t)eligible_in_range, fp); fp = fnv_u64((uint64_t)on_edge, fp);
  res.fingerprint = fnv_u64(fp, res.fingerprint);
  return res;
}

Property make() {
  Property p;
  p.id = "C15"; p.level = "exploration"; p.design_ref = "DESIGN.md §7 C15";
  p.rule = "plan = histogram over 1-3 scalar variables (5 kinds); 45% of the non-periodic dimensions take their boundaries, bit for bit, from two values the variable itself takes during the run (2-8 bins between them), the others get 3-9 bins over 0.5-1.3 of the visited range; "
           "60-120 steps in 1-4 run segments with stop/restart through a text or binary state file; non-trivial = at least one in-range eligible sample; distinct = hash of (kinds, edge flags, segmentation, state format)";
  p.rule += " Later additions: custom grids cut each dimension independently; a third of the text restarts multiply the state's counts by a large odd factor; a third of the plans compare the TI count grid of a restraint (writeTISamples) with the same reference.";
  p.assumptions = {"the reference applies the half-open rule with the same floating-point expression floor((x - lower)/width) to the value the variable reports; wrapping and range test are its own",
                   "eligible = not the first evaluation of a run or instance (the run-boundary rule; stepZeroData off)",
                   "gatherVectorColvars weights, DX and raw grid readers are not checked; the restart form is checked through the state after reload"};
  p.real_components = {"colvarbias_histogram::update/write_output_files/state", "colvar_grid: current_bin_scalar, index_ok, acc_value, write_raw/read_raw, write_multicol", "colvar value reporting"};
  p.stub_components = {"MD engine (kinematic)", "file system (sim::FS)"};
  p.gen = gen; p.run = run;
  p.quick_runs = 3000; p.thorough_runs = 80000; p.quick_secs = 70; p.thorough_secs = 900;
  return p;
}
Registrar reg(make());

}  // namespace
