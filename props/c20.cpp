// C20 — the scripting interface is total and agrees with the engine-side view.
//
// Workload: a script client issues commands — drawn from the library's own command table, with
// well-formed arguments from a typed generator and malformed ones (wrong arity, unknown objects,
// unknown sub-commands and features, garbage, empty and very long strings) — interleaved with
// engine steps, run-time definitions/deletions, state round trips and component flag changes.
// Oracles:
//  totality   every call returns (OK or error); the worker survives (ASan/UBSan, hang budget); the steps
//             that follow a failed command raise no error;
//  agreement  right after every engine step the script's view — colvar value / getappliedforce /
//             gettotalforce / getgradients, bias energy, getenergy, getatomids + getatomappliedforces,
//             getstepabsolute, printframe — equals what the engine received at that step (forces on
//             atoms, energy) and what it recorded from the objects; the atom forces equal
//             sum over variables of (script applied force x script gradients);
//  equivalence  a twin run uses the other route for every step that has two — `config` vs
//             `configfile`, `savetostring`+`loadfromstring` vs `save`+`load` (module and per bias) —
//             and must produce bitwise the same steps.
#include "simrun.h"
#include "scenario.h"

#include <cmath>
#include <memory>
#include <set>
#include <sstream>

#include "colvarscript.h"

using namespace sim;

namespace {

const char *k_tmpl[] = {"harm_fixed", "harm_cmove", "walls_fixed", "linear_fixed", "meta_grid", "meta_nogrid", "histogram", "abf", "harm_kmove", "opes"};

std::string combo_cv(Rng &r, int natoms, std::string const &name, double &width, std::string *alt = nullptr, std::string *modify = nullptr) {
  // two distance components with different coefficients
  std::vector<std::vector<int>> g = pick_groups(r, natoms, 4, 2);
  auto grp = [&](std::vector<int> const &v) { std::string s; for (int a : v) s += " " + std::to_string(a + 1); return s; };
  width = 0.5;
  double c0 = r.uniform(0.5, 1.5), c1 = r.uniform(-1.0, 1.0);
  bool total_force = r.chance(0.4);
  auto text = [&](double a, double b) {
    std::string c = "colvar {\n  name " + name + "\n  width 0.5\n" + (total_force ? "  outputTotalForce on\n" : "");
    c += "  distance {\n    name c0\n    componentCoeff " + num(a) + "\n    group1 { atomNumbers" + grp(g[0]) + " }\n    group2 { atomNumbers" + grp(g[1]) + " }\n  }\n";
    c += "  distance {\n    name c1\n    componentCoeff " + num(b) + "\n    group1 { atomNumbers" + grp(g[2]) + " }\n    group2 { atomNumbers" + grp(g[3]) + " }\n  }\n}\n";
    return c;
  };
  if (alt && modify && r.chance(0.4)) {
    // the coefficients are changed through the script right after the definition; the other route defines them so from the start
    double f0 = std::round(r.uniform(0.5, 2.5) * 100) / 100, f1 = std::round(r.uniform(-1.5, 1.5) * 100) / 100;
    *alt = text(f0, f1);
    *modify = "\"componentCoeff " + num(f0) + "\" \"componentCoeff " + num(f1) + "\"";
  }
  return text(c0, c1);
}

J gen(uint64_t seed, bool thorough) {
  Rng r(seed, 20);
  EngineCfg ec;
  ec.natoms = (int)r.range(10, 16);
  ec.data_seed = r.next() >> 12; ec.noise_seed = r.next() >> 12;
  ec.dt = 1.0; ec.temperature = 300.0; ec.forces_late = r.chance(0.4);
  ec.traj_amp = r.uniform(0.5, 1.3);
  ec.setup_each_run = r.chance(0.5);   // NAMD-like or LAMMPS-like run protocol
  TrajModel m; m.build(ec.data_seed, ec.natoms, ec.traj_amp, ec.force_amp, false);
  long T = 60;
  J plan = J::obj();
  plan["v"] = 1; plan["property"] = "C20"; plan["seed"] = (long long)seed;
  J sc = J::obj();
  J e = J::obj(); ec.to_json(e); sc["engine"] = e;
  // a quarter of the plans let the engine's scripted-force callback act at every step (before or after the biases): it adds an energy and
  // a force on the first variable through the script interface, as a Tcl calc_colvar_forces procedure would
  bool scripted = r.chance(0.25);
  sc["config"] = global_config((int)r.range(1, 3), 0, false) + (scripted ? std::string("scriptedColvarForces on\nscriptingAfterBiases ") + (r.chance(0.5) ? "on" : "off") + "\n" : std::string());
  sc["scripted"] = scripted; sc["scripted_energy"] = std::round(r.uniform(0.5, 5) * 100) / 100; sc["scripted_force"] = std::round(r.uniform(-2, 2) * 100) / 100;
  sc["T"] = (long long)T;
  J ops = J::arr();
  struct LiveCv { std::string name; CvSpec spec; std::pair<double, double> range; bool combo = false; int tsf = 1; };
  std::vector<LiveCv> cvs; std::vector<std::string> biases;
  int ncv = 0, nb = 0, nfile = 0;
  static const char *kinds[] = {"distance", "distanceZ", "dihedral", "angle", "distanceXY"};
  std::string sig;
  auto add_cv = [&]() {
    LiveCv c; c.name = "v" + std::to_string(ncv++);
    J op = J::obj(); op["w"] = 0; op["op"] = "define"; op["name"] = c.name; op["what"] = "cv"; op["file"] = "def" + std::to_string(nfile++) + ".in";
    if (r.chance(0.3)) {
      double w; std::string alt, mod; op["config"] = combo_cv(r, ec.natoms, c.name, w, &alt, &mod); c.combo = true; op["ncomp"] = 2;
      if (!mod.empty()) { op["config_alt"] = alt; op["modify"] = mod; }
    } else {
      c.spec = make_cv(r, ec.natoms, kinds[r.below(5)], c.name);
      place_grid(c.spec, m, T, r, (int)r.range(4, 10), 1.4);
      double lo, hi; cv_range(c.spec, m, T, lo, hi); c.range = {lo, hi};
      if (r.chance(0.3)) c.spec.extra += "  outputAppliedForce on\n";
      if (r.chance(0.2)) c.spec.extra += "  outputTotalForce on\n";
      // some variables are only evaluated on multiples of a time-step factor: in between they sleep and hand nothing to the engine
      if (r.chance(0.15)) { c.tsf = (int)r.range(2, 3); c.spec.extra += "  timeStepFactor " + std::to_string(c.tsf) + "\n"; }
      op["config"] = c.spec.config(); op["ncomp"] = 1;
    }
    ops.push(op); cvs.push_back(c); sig += "C";
  };
  auto add_bias = [&]() {
    // only on catalogue variables (the combination variable gets a plain harmonic restraint)
    std::vector<size_t> plain; for (size_t q = 0; q < cvs.size(); q++) if (!cvs[q].combo && cvs[q].tsf == 1) plain.push_back(q);
    // a variable with a time-step factor gets a plain harmonic restraint with the same factor
    { std::vector<size_t> mts; for (size_t q = 0; q < cvs.size(); q++) if (cvs[q].tsf > 1) mts.push_back(q);
      if (!mts.empty() && r.chance(0.3)) {
        LiveCv const &c = cvs[mts[r.below(mts.size())]];
        J op2 = J::obj(); op2["w"] = 0; op2["op"] = "define"; op2["what"] = "bias"; op2["file"] = "def" + std::to_string(nfile++) + ".in";
        std::string name2 = "b" + std::to_string(nb++);
        op2["config"] = "harmonic {\n  name " + name2 + "\n  colvars " + c.name + "\n  centers " + num(std::round(0.5 * (c.range.first + c.range.second) * 100) / 100) + "\n  forceConstant " + num(std::round(r.uniform(0.5, 8) * 10) / 10) + "\n  timeStepFactor " + std::to_string(c.tsf) + "\n  outputEnergy on\n}\n";
        op2["tmpl"] = "harm_mts"; op2["name"] = name2; ops.push(op2); sig += "M";   // (not entered in `biases`: switching a multiple-time-step bias through the script is a recorded finding, C08)
        return;
      } }
    J op = J::obj(); op["w"] = 0; op["op"] = "define"; op["what"] = "bias"; op["file"] = "def" + std::to_string(nfile++) + ".in";
    std::string name = "b" + std::to_string(nb++);
    if (plain.empty() || r.chance(0.2)) {
      std::vector<size_t> cb; for (size_t q = 0; q < cvs.size(); q++) if (cvs[q].combo) cb.push_back(q);
      if (cb.empty()) return;
      std::string cv = cvs[cb[r.below(cb.size())]].name;
      op["config"] = "harmonic {\n  name " + name + "\n  colvars " + cv + "\n  centers " + num(r.uniform(-2, 6)) + "\n  forceConstant " + num(r.uniform(0.5, 8)) + "\n  outputEnergy on\n}\n";
      op["tmpl"] = "harm_combo";
    } else {
      std::string t;
      for (;;) {
        t = k_tmpl[r.below(sizeof k_tmpl / sizeof *k_tmpl)];
        int k = std::min<int>((int)plain.size(), std::min(t == "abf" ? 1 : 2, bias_template_max_cv(t)));   // (the energy of a 2-D ABF depends on when its PMF was last integrated: C03 finding)
        k = (int)r.range(1, k);
        std::vector<size_t> idx = plain;
        for (size_t q = idx.size() - 1; q > 0; q--) std::swap(idx[q], idx[r.below(q + 1)]);
        idx.resize((size_t)k);
        bool per = false; for (size_t q : idx) per = per || cvs[q].spec.periodic();
        if (per && (t.rfind("linear", 0) == 0 || t.rfind("walls", 0) == 0)) continue;
        std::vector<CvSpec> sub; std::vector<std::pair<double, double>> rg;
        for (size_t q : idx) { sub.push_back(cvs[q].spec); rg.push_back(cvs[q].range); }
        std::string cfg = make_bias(t, r, sub, rg, 30, name).config; size_t p;
        while ((p = cfg.find("  writeTI")) != std::string::npos) cfg.erase(p, cfg.find('\n', p) - p + 1);
        if ((p = cfg.find("  timeStepFactor")) != std::string::npos) cfg.erase(p, cfg.find('\n', p) - p + 1);
        op["config"] = cfg;
        break;
      }
      op["tmpl"] = t;
    }
    op["name"] = name;
    ops.push(op); biases.push_back(name); sig += "B";
  };
  int ninit = (int)r.range(1, 3);
  for (int i = 0; i < ninit; i++) add_cv();
  int nbias = (int)r.range(1, 3);
  for (int i = 0; i < nbias; i++) add_bias();
  int nops = (int)r.range(5, thorough ? 30 : 14);
  auto some_cv = [&]() -> std::string { return cvs.empty() || r.chance(0.08) ? std::string("nosuch") : cvs[r.below(cvs.size())].name; };
  auto some_bias = [&]() -> std::string { return biases.empty() || r.chance(0.08) ? std::string("nosuch") : biases[r.below(biases.size())]; };
  static const char *garbage[] = {"", " ", "{", "}", "{ { }", "\"", "-1", "1e308", "nan", "0x", "%s%s%s%n", "colvar {", "\n\n", "a b c d e f", "\t", "0 0 0 0 0 0 0 0 0 0 0 0", "(1,2,3)", "( 1 , 2 , 3 )", "1 0", "1 1 1"};
  static const char *cv_feats[] = {"active", "collect_gradient", "gradient", "total_force", "Jacobian_derivative", "nosuchfeature", "grid", "periodic", "apply_force", "output_applied_force", "extended_Lagrangian", ""};
  static const char *cv_set_feats[] = {"collect_gradient", "nosuchfeature", "", "output_applied_force", "collect_gradient"};
  static const char *bias_feats[] = {"active", "apply_force", "output_energy", "history_dependent", "nosuchfeature", "scalar_variables", "time_dependent", ""};
  static const char *bias_set_feats[] = {"active", "output_energy", "nosuchfeature", "", "active"};
  for (int i = 0; i < nops; i++) {
    double u = r.unit();
    J op = J::obj(); op["w"] = 0;
    if (u < 0.3) {
      op["op"] = "run"; op["n"] = (long long)r.range(1, 5); sig += "r";
    } else if (u < 0.36 && cvs.size() < 4) { add_cv(); continue; }
    else if (u < 0.42 && biases.size() < 4 && !cvs.empty()) { add_bias(); continue; }
    else if (u < 0.48) {
      // state round trip (module or one bias), two routes
      op["op"] = "roundtrip"; op["bias"] = (r.chance(0.4) && !biases.empty()) ? biases[r.below(biases.size())] : std::string("");
      op["prefix"] = "rt" + std::to_string(nfile++); sig += "T";
    } else if (u < 0.54) {
      // component flags of a variable (takes effect at the next step)
      std::vector<size_t> cb; for (size_t q = 0; q < cvs.size(); q++) if (cvs[q].combo) cb.push_back(q);
      J a = J::arr(); a.push("cv"); a.push("colvar");
      if (!cb.empty() && r.chance(0.8)) { a.push(cvs[cb[r.below(cb.size())]].name); a.push("cvcflags"); static const char *fl[] = {"1 0", "0 1", "1 1", "1 1", "1 0"}; a.push(fl[r.below(5)]); }
      else { a.push(some_cv()); a.push("cvcflags"); a.push(garbage[r.below(sizeof garbage / sizeof *garbage)]); }
      op["op"] = "cmd"; op["args"] = a; sig += "f";
    } else if (u < 0.58 && !biases.empty()) {
      size_t q = r.below(biases.size());
      J a = J::arr(); a.push("cv"); a.push("bias"); a.push(biases[q]); a.push("delete");
      op["op"] = "cmd"; op["args"] = a; biases.erase(biases.begin() + (long)q); sig += "d";
    } else if (u < 0.6 && cvs.size() > 1) {
      size_t q = r.below(cvs.size());
      J a = J::arr(); a.push("cv"); a.push("colvar"); a.push(cvs[q].name); a.push("delete");
      op["op"] = "cmd"; op["args"] = a; cvs.erase(cvs.begin() + (long)q); sig += "D";
      // biases on it die with it: forget all (names stay valid as 'unknown object' arguments)
      biases.clear();
    } else {
      // a command from the table: well-formed or malformed
      J a = J::arr(); a.push("cv");
      double w = r.unit();
      if (w < 0.4) {
        op["op"] = "table"; op["pick"] = (long long)r.below(1000); op["obj_cv"] = some_cv(); op["obj_bias"] = some_bias();
        op["mal"] = r.chance(0.45) ? (long long)r.range(1, 4) : 0LL;   // 1: too few, 2: too many, 3: garbage argument, 4: very long argument
        op["garb"] = garbage[r.below(sizeof garbage / sizeof *garbage)];
        op["feat_cv"] = cv_set_feats[r.below(5)]; op["feat_bias"] = bias_set_feats[r.below(5)];
        op["val"] = r.chance(0.5) ? "1" : (r.chance(0.5) ? "0" : garbage[r.below(sizeof garbage / sizeof *garbage)]);
        sig += "t"; ops.push(op); continue;
      } else if (w < 0.55) { bool set = r.chance(0.5); a.push("colvar"); a.push(some_cv()); a.push(set ? "set" : "get"); a.push(set ? cv_set_feats[r.below(5)] : cv_feats[r.below(sizeof cv_feats / sizeof *cv_feats)]); if (set) a.push(r.chance(0.7) ? "1" : garbage[r.below(sizeof garbage / sizeof *garbage)]); }
      else if (w < 0.7) { bool set = r.chance(0.5); a.push("bias"); a.push(some_bias()); a.push(set ? "set" : "get"); a.push(set ? bias_set_feats[r.below(5)] : bias_feats[r.below(sizeof bias_feats / sizeof *bias_feats)]); if (set) a.push(r.chance(0.7) ? (r.chance(0.5) ? "1" : "0") : garbage[r.below(sizeof garbage / sizeof *garbage)]); }
      else if (w < 0.8) { a.push(garbage[r.below(sizeof garbage / sizeof *garbage)]); if (r.chance(0.5)) a.push(garbage[r.below(sizeof garbage / sizeof *garbage)]); }
      else if (w < 0.9) { a.push(r.chance(0.5) ? "colvar" : "bias"); a.push(r.chance(0.5) ? some_cv() : some_bias()); a.push(garbage[r.below(sizeof garbage / sizeof *garbage)]); }
      else { a.push("colvar"); a.push(some_cv()); a.push("addforce"); a.push(r.chance(0.7) ? num(r.uniform(-5, 5)) : garbage[r.below(sizeof garbage / sizeof *garbage)]); }
      op["op"] = "cmd"; op["args"] = a; sig += "c";
    }
    ops.push(op);
  }
  { J op = J::obj(); op["w"] = 0; op["op"] = "run"; op["n"] = (long long)r.range(2, 6); ops.push(op); sig += "r"; }
  sc["template"] = sig.size() > 24 ? sig.substr(0, 24) : sig;
  plan["scenario"] = sc;
  plan["ops"] = ops;
  return plan;
}

std::vector<double> parse_numbers(std::string const &s, bool *ok = nullptr) {
  std::string t = s; for (char &c : t) if (c == '{' || c == '}' || c == '(' || c == ')' || c == ',') c = ' ';
  std::vector<double> v; std::istringstream is(t); std::string tok; bool good = true;
  while (is >> tok) { char *end = nullptr; double x = strtod(tok.c_str(), &end); if (end == tok.c_str() || *end) { good = false; continue; } v.push_back(x); }
  if (ok) *ok = good;
  return v;
}

bool close_enough(double a, double b, double rtol, double atol) { if (std::isnan(a) && std::isnan(b)) return true; return std::fabs(a - b) <= atol + rtol * std::max(std::fabs(a), std::fabs(b)); }

// would this cvcflags argument switch every component off?  (the library reads it with operator>> into bools)
bool flags_all_off(std::string const &arg) {
  std::istringstream is(arg); bool f; int n = 0, on = 0;
  while (is >> f) { n++; if (f) on++; }
  return n > 0 && on == 0;
}

struct Outcome {
  std::vector<StepRec> recs;
  std::string fail_oracle, fail_sig, fail_detail;
  long commands = 0, errors_returned = 0, agreements = 0, steps_after_failed = 0, refused_definitions = 0;
  std::map<std::string, long> cmd_used;
  void fail(std::string const &o, std::string const &s, std::string const &d) { if (fail_sig.empty()) { fail_oracle = o; fail_sig = s; fail_detail = d; } }
};

// the script's view right after a step vs the engine's
void agreement(Engine &e, Outcome &out) {
  StepRec const &r = e.rec.back();
  std::string at = "step " + std::to_string(r.step);
  std::string res; bool ok;
  auto q = [&](std::vector<std::string> const &args) -> bool { res.clear(); int rc = e.run_script(args, &res); out.commands++; return rc == COLVARS_OK; };
  int n = e.cfg.natoms;
  std::vector<double> fsum((size_t)(3 * n), 0.0);
  bool all_grad = true;
  size_t k = 0;
  for (colvar *cv : *e.colvars->variables()) {
    std::string nm = cv->name;
    size_t dim = (size_t)(r.cv_off[k + 1] - r.cv_off[k]);
    if (!q({"cv", "colvar", nm, "value"})) { out.fail("agreement", "query_failed/value", at + ": colvar " + nm + " value: " + res); return; }
    std::vector<double> v = parse_numbers(res, &ok);
    if (!ok || v.size() != dim) { out.fail("agreement", "value_format", at + ": colvar " + nm + " value = \"" + res + "\""); return; }
    for (size_t d = 0; d < dim; d++) if (!close_enough(v[d], r.cv[(size_t)r.cv_off[k] + d], 1e-12, 1e-13)) { out.fail("agreement", "value", at + ": script says " + nm + " = " + res + ", the module holds " + fmt_double(r.cv[(size_t)r.cv_off[k] + d])); return; }
    if (!q({"cv", "colvar", nm, "getappliedforce"})) { out.fail("agreement", "query_failed/getappliedforce", at + ": " + res); return; }
    std::vector<double> fa = parse_numbers(res, &ok);
    if (!ok || fa.size() != dim) { out.fail("agreement", "appliedforce_format", at + ": colvar " + nm + " getappliedforce = \"" + res + "\""); return; }
    for (size_t d = 0; d < dim; d++) if (!close_enough(fa[d], r.cv_fa[(size_t)r.cv_off[k] + d], 1e-12, 1e-13)) { out.fail("agreement", "appliedforce", at + ": script says force on " + nm + " = " + res + ", the module applied " + fmt_double(r.cv_fa[(size_t)r.cv_off[k] + d])); return; }
    if (cv->is_enabled(colvardeps::f_cv_total_force)) {
      if (!q({"cv", "colvar", nm, "gettotalforce"})) { out.fail("agreement", "query_failed/gettotalforce", at + ": " + res); return; }
      std::vector<double> ft = parse_numbers(res, &ok);
      if (ok && ft.size() == dim) for (size_t d = 0; d < dim; d++) if (!close_enough(ft[d], r.cv_ft[(size_t)r.cv_off[k] + d], 1e-12, 1e-13)) { out.fail("agreement", "totalforce", at + ": script says total force on " + nm + " = " + res + ", the module holds " + fmt_double(r.cv_ft[(size_t)r.cv_off[k] + d])); return; }
    }
    if (!cv->is_enabled(colvardeps::f_cv_active) && cv->get_time_step_factor() > 1) {
      // asleep between multiples of its time-step factor: the engine receives nothing from it at this step
      bool nz = false; for (size_t d = 0; d < dim; d++) if (fa[d] != 0.0) nz = true;
      if (nz) { out.fail("agreement", "applied_force_reported_by_a_sleeping_variable", at + ": script says force on " + nm + " = " + res + ", but the variable is not evaluated at this step (timeStepFactor " + std::to_string(cv->get_time_step_factor()) + ") and hands nothing to the engine"); return; }
    }
    if (!cv->is_enabled(colvardeps::f_cv_apply_force) && cv->is_enabled(colvardeps::f_cv_active)) {
      bool nz = false; for (size_t d = 0; d < dim; d++) if (fa[d] != 0.0) nz = true;
      if (nz) { out.fail("agreement", "applied_force_reported_by_a_variable_that_applies_none", at + ": script says force on " + nm + " = " + res + ", but the variable has no active force-applying bias and hands nothing to the engine"); return; }
    }
    // gradients: sum of f * dxi/dx over variables must be the atom forces the engine received
    if (dim == 1 && cv->is_enabled(colvardeps::f_cv_collect_gradient) && cv->is_enabled(colvardeps::f_cv_active)) {
      std::string ids_s;
      if (!q({"cv", "colvar", nm, "getatomids"})) { out.fail("agreement", "query_failed/getatomids", at + ": " + res); return; }
      std::vector<double> ids = parse_numbers(res, &ok);
      if (!q({"cv", "colvar", nm, "getgradients"})) { out.fail("agreement", "query_failed/getgradients", at + ": " + res); return; }
      std::vector<double> g = parse_numbers(res, &ok);
      if (g.size() != 3 * ids.size()) { out.fail("agreement", "gradients_format", at + ": colvar " + nm + ": " + std::to_string(ids.size()) + " atom ids but " + std::to_string(g.size()) + " gradient components"); return; }
      for (size_t a = 0; a < ids.size(); a++) { long id = (long)ids[a]; if (id < 0 || id >= n) { out.fail("agreement", "atomid_range", at + ": colvar " + nm + " lists atom id " + std::to_string(id)); return; } for (int c = 0; c < 3; c++) fsum[(size_t)(3 * id + c)] += fa[0] * g[3 * a + (size_t)c]; }
    } else if (cv->is_enabled(colvardeps::f_cv_active)) all_grad = false;
    k++;
  }
  // per-atom forces
  if (!q({"cv", "getatomids"})) { out.fail("agreement", "query_failed/cv_getatomids", at + ": " + res); return; }
  std::vector<double> ids = parse_numbers(res, &ok);
  if (!q({"cv", "getatomappliedforces"})) { out.fail("agreement", "query_failed/getatomappliedforces", at + ": " + res); return; }
  std::vector<double> f = parse_numbers(res, &ok);
  if (f.size() != 3 * ids.size()) { out.fail("agreement", "atomforces_format", at + ": " + std::to_string(ids.size()) + " atom ids but " + std::to_string(f.size()) + " force components"); return; }
  std::vector<double> byid((size_t)(3 * n), 0.0);
  for (size_t a = 0; a < ids.size(); a++) { long id = (long)ids[a]; if (id < 0 || id >= n) { out.fail("agreement", "atomid_range", at + ": cv getatomids lists " + std::to_string(id)); return; } for (int c = 0; c < 3; c++) byid[(size_t)(3 * id + c)] += f[3 * a + (size_t)c]; }
  for (size_t c = 0; c < byid.size(); c++) if (!close_enough(byid[c], r.fapp[c], 1e-5, 1e-9)) { out.fail("agreement", "atom_applied_forces", at + ": script says force component " + std::to_string(c) + " = " + fmt_double(byid[c]) + ", the engine received " + fmt_double(r.fapp[c])); return; }
  if (all_grad) for (size_t c = 0; c < fsum.size(); c++) if (!close_enough(fsum[c], r.fapp[c], 1e-9, 1e-10)) { out.fail("agreement", "gradients_times_force", at + ": sum over variables of script force x script gradient, component " + std::to_string(c) + " = " + fmt_double(fsum[c]) + ", the engine received " + fmt_double(r.fapp[c])); return; }
  // energies (6 significant digits in the script result)
  k = 0; double esum = 0;
  for (colvarbias *b : e.colvars->biases) {
    if (!q({"cv", "bias", b->name, "energy"})) { out.fail("agreement", "query_failed/bias_energy", at + ": " + res); return; }
    std::vector<double> be = parse_numbers(res, &ok);
    if (!ok || be.size() != 1 || !close_enough(be[0], r.bias_e[k], 2e-5, 1e-12)) { out.fail("agreement", "bias_energy", at + ": script says energy of " + b->name + " = " + res + ", the module holds " + fmt_double(r.bias_e[k])); return; }
    esum += r.bias_e[k]; k++;
  }
  if (!q({"cv", "getenergy"})) { out.fail("agreement", "query_failed/getenergy", at + ": " + res); return; }
  { std::vector<double> en = parse_numbers(res, &ok); if (!ok || en.size() != 1 || !close_enough(en[0], r.energy, 2e-5, 1e-9)) { out.fail("agreement", "total_energy", at + ": script says " + res + ", the engine received " + fmt_double(r.energy)); return; } }
  if (!q({"cv", "getstepabsolute"})) { out.fail("agreement", "query_failed/getstepabsolute", at + ": " + res); return; }
  { std::vector<double> st = parse_numbers(res, &ok); if (!ok || st.size() != 1 || (long)st[0] != r.step) { out.fail("agreement", "step", at + ": script says step " + res); return; } }
  out.agreements++;
}

// one entry of the library's command table, with typed or malformed arguments
std::vector<std::string> table_command(Engine &e, J const &op) {
  colvarscript *s = e.script;
  int ncmd = (int)colvarscript::cv_n_commands;
  int pick = (int)(op.at("pick").as_int() % ncmd);
  std::string full = s->get_command_names()[pick];   // e.g. cv_getenergy, colvar_value, bias_energy
  int nmin = s->get_command_n_args_min(full.c_str()), nmax = s->get_command_n_args_max(full.c_str());
  std::vector<std::string> a{"cv"};
  std::string sub;
  if (full.rfind("cv_", 0) == 0) sub = full.substr(3);
  else if (full.rfind("colvar_", 0) == 0) { a.push_back("colvar"); a.push_back(op.at("obj_cv").as_str()); sub = full.substr(7); }
  else if (full.rfind("bias_", 0) == 0) { a.push_back("bias"); a.push_back(op.at("obj_bias").as_str()); sub = full.substr(5); }
  a.push_back(sub);
  long mal = (long)op.at("mal").as_int();
  std::string garb = op.at("garb").as_str();
  int nargs = nmin;
  if (mal == 1) nargs = std::max(0, nmin - 1); else if (mal == 2) nargs = nmax + 1 + (int)(op.at("pick").as_int() % 3);
  else if (nmax > nmin && (op.at("pick").as_int() / 7) % 2) nargs = nmax;
  for (int i = 0; i < nargs; i++) {
    std::string v;
    if (mal == 3) v = (sub == "load") ? garb + ".nonexistent" : garb;   // (a garbage-named file written by an earlier save must not be found: loading a state saved before the first step is a restart matter)
    else if (sub == "load" && mal == 0) v = "nonexistent-prefix";
    else if (sub == "save" && mal == 0) v = "tbl";
    else if (mal == 4) v = std::string(20000, 'x');
    else if (sub == "get" || sub == "set") v = i == 0 ? (a[1] == "colvar" ? op.at("feat_cv").as_str() : op.at("feat_bias").as_str()) : op.at("val").as_str();
    else if (sub == "help") v = "value";
    else if (sub == "list") v = "biases";
    else if (sub == "bincount" || sub == "local_sample_count") v = "0";
    else if (sub == "units") v = "real";
    else if (sub == "addenergy") v = "0.5";
    else if (sub == "addforce") v = "0.25";
    else if (sub == "cvcflags") v = "1 1";
    else if (sub == "modifycvcs") v = "{ componentCoeff 1.0 }";
    else if (sub == "frame" || sub == "molid" || sub == "timestep" || sub == "targettemperature") v = "";   // queried, not set: setting them changes the engine-side contract
    else v = garb;
    a.push_back(v);
  }
  // commands that change what the ENGINE side owns (step counter, time step, temperature) or destroy the module are only issued malformed or as queries
  if ((sub == "frame" || sub == "molid" || sub == "timestep" || sub == "targettemperature") && mal != 1 && mal != 2) a.resize(a[1] == "colvar" || a[1] == "bias" ? 4 : 2);
  if (full == "cv_delete" || full == "cv_reset" || full == "cv_update" || full == "colvar_update" || full == "bias_update" || full == "colvar_communicateforces" ||
      full == "cv_resetatomappliedforces" || full == "colvar_resetbiasforce" || full == "bias_share") a.push_back("unexpected-extra-argument");
  return a;
}

Outcome execute(J const &plan, bool alt_route, bool test) {
  Outcome out;
  EngineCfg ec; std::string config; long T;
  scenario_from_json(plan.at("scenario"), ec, config, T);
  std::unique_ptr<Engine> e(new Engine(ec));
  e->configure(config);
  Engine *ep = e.get();
  if (plan.at("scenario").has("scripted") && plan.at("scenario").at("scripted").as_bool()) {
    std::string en = num(plan.at("scenario").at("scripted_energy").as_num()), fo = num(plan.at("scenario").at("scripted_force").as_num());
    e->force_callback = [ep, en, fo, &out]() {
      ep->run_script({"cv", "addenergy", en});
      if (!cvm::main()->variables()->empty()) ep->run_script({"cv", "colvar", (*cvm::main()->variables())[0]->name, "addforce", fo});
      out.cmd_used["callback_addenergy"]++;
      return COLVARS_OK;
    };
  }
  bool failed_before = false;   // a command returned an error since the last step
  bool roundtrip_done = false;   // a state was reloaded: a later consistency complaint (value vs restart value) is compared between the routes, not attributed here
  bool fresh_definition = false; // an object was defined since the last step (its value has never been computed)
  e->after_step = [&](long) {
    StepRec const &r = ep->rec.back();
    if (failed_before) out.steps_after_failed++;
    if (r.err && out.fail_sig.empty() && !roundtrip_done) {
      std::string m = ep->last_error(), cls; for (char ch : m) { if (ch == '"') break; if (!isdigit((unsigned char)ch) && ch != '\n') cls += ch; }
      while (!cls.empty() && cls[0] == ' ') cls.erase(0, 1); if (cls.size() > 60) cls.resize(60);
      out.fail("usable", std::string(failed_before ? "step_error_after_failed_command/" : "step_error/") + cls, "step " + std::to_string(r.step) + ": error bits " + std::to_string(r.err) + ": " + m);
    }
    failed_before = false; fresh_definition = false;
    // (a step that ended with an error did not hand anything over to the engine: nothing to agree on)
    if (test && out.fail_sig.empty() && !r.err) agreement(*ep, out);
    cvm::clear_error();
  };
  J const &ops = plan.at("ops");
  for (size_t i = 0; i < ops.size() && out.fail_sig.empty(); i++) {
    J const &op = ops.a[i];
    std::string k = op.at("op").as_str();
    cvm::clear_error();
    std::string res; int rc = COLVARS_OK;
    if (k == "define") {
      std::string cfg = alt_route && op.has("config_alt") ? op.at("config_alt").as_str() : op.at("config").as_str();
      if (!alt_route) rc = e->run_script({"cv", "config", cfg}, &res);
      else { fs().put("/simfs/w0/" + op.at("file").as_str(), cfg); rc = e->run_script({"cv", "configfile", op.at("file").as_str()}, &res); }
      out.commands++; out.cmd_used[alt_route ? "configfile" : "config"]++;
      if (rc != COLVARS_OK) {
        // (a plan reduced by the shrinker may define a bias whose variables are gone: not a finding)
        bool missing = false;
        if (op.at("what").as_str() == "bias") { size_t p = cfg.find("colvars "); std::istringstream is(cfg.substr(p + 8, cfg.find('\n', p) - p - 8)); std::string v; while (is >> v) if (!cvm::colvar_by_name(v)) missing = true; }
        if (missing) { cvm::clear_error(); continue; }
        // the catalogue template does not fit this combination of objects: refusals are C10's subject, not a finding here
        out.refused_definitions++; cvm::clear_error(); continue;
      }
      fresh_definition = true;
      if (!alt_route && op.has("modify")) {
        rc = e->run_script({"cv", "colvar", op.at("name").as_str(), "modifycvcs", op.at("modify").as_str()}, &res);
        out.commands++; out.cmd_used["colvar_modifycvcs"]++;
        if (rc != COLVARS_OK) { out.fail("usable", "modifycvcs_refused", "modifycvcs " + op.at("modify").as_str() + " on " + op.at("name").as_str() + ": " + e->last_error() + " " + res); break; }
      }
      if (op.at("what").as_str() == "cv") { e->run_script({"cv", "colvar", op.at("name").as_str(), "set", "collect_gradient", "1"}, &res); out.commands++; }
    } else if (k == "run") {
      e->run((int)op.at("n").as_int(1), false);
    } else if (k == "roundtrip") {
      std::string b = op.at("bias").as_str(), pre = op.at("prefix").as_str();
      bool have = b.empty() || cvm::bias_by_name(b) != NULL;
      if (!have) continue;
      // a state written before an object was ever computed records a value of zero, and reading it back makes the first
      // step fail its consistency test with either route: a restart matter (C03), not a scripting one
      if (fresh_definition || e->rec.empty()) continue;
      std::vector<std::string> base{"cv"}; if (!b.empty()) { base.push_back("bias"); base.push_back(b); }
      auto cmd = [&](std::string const &c, std::string const &arg, bool with_arg) { std::vector<std::string> a = base; a.push_back(c); if (with_arg) a.push_back(arg); out.commands++; out.cmd_used[(b.empty() ? "cv_" : "bias_") + c]++; return e->run_script(a, &res); };
      if (!alt_route) {
        rc = cmd("savetostring", "", false); std::string st = res;
        if (rc == COLVARS_OK) rc = cmd("loadfromstring", st, true);
      } else {
        rc = cmd("save", pre, true);
        if (rc == COLVARS_OK) rc = cmd("load", b.empty() ? pre + ".colvars.state" : pre, true);
      }
      roundtrip_done = true;
      if (rc != COLVARS_OK) { out.fail("usable", std::string("state_roundtrip_failed/") + (b.empty() ? "module" : "bias") + (alt_route ? "/file" : "/string"), "round trip of " + (b.empty() ? std::string("the module") : b) + ": " + e->last_error() + " " + res); break; }
    } else if (k == "cmd" || k == "table") {
      std::vector<std::string> a;
      if (k == "cmd") for (auto const &x : op.at("args").a) a.push_back(x.as_str()); else a = table_command(*e, op);
      // (switching every component of a variable off is a request for an error at the next step, not a malformed command)
      if (a.size() >= 5 && a[1] == "colvar" && a[3] == "cvcflags" && flags_all_off(a[4])) continue;
      rc = e->run_script(a, &res);
      out.commands++;
      if (a.size() > 1) out.cmd_used[a[1] == "colvar" || a[1] == "bias" ? (a.size() > 3 ? a[1] + "_" + a[3] : a[1]) : "cv_" + a[1]]++;
      if (rc != COLVARS_OK) { out.errors_returned++; failed_before = true; }
    }
  }
  out.recs = e->rec;
  return out;
}

RunResult run(J const &plan) {
  RunResult res;
  Outcome test, twin;
  { SimRun sim(1); test = execute(plan, false, true); sim.finish(res); }
  res.counters["steps"] += (long long)test.recs.size();
  res.counters["probe.script_commands"] += test.commands;
  res.counters["probe.commands_returning_error"] += test.errors_returned; res.counters["fault.command_refused"] += test.errors_returned;
  res.counters["probe.agreement_checks"] += test.agreements;
  res.counters["probe.steps_after_failed_command"] += test.steps_after_failed;
  res.counters["probe.definitions_refused"] += test.refused_definitions;
  for (auto const &kv : test.cmd_used) res.counters["cmd." + kv.first] += kv.second;
  if (!test.fail_sig.empty()) res.fail(test.fail_oracle, test.fail_sig, test.fail_detail);
  if (!res.violation) {
    { SimRun sim(1); twin = execute(plan, true, false); sim.finish(res); }
    if (!twin.fail_sig.empty()) res.fail(twin.fail_oracle, twin.fail_sig + "/other_route", twin.fail_detail);
    else if (test.recs.size() != twin.recs.size()) res.fail("equivalence", "step_count", std::to_string(test.recs.size()) + " vs " + std::to_string(twin.recs.size()));
    else for (size_t i = 0; i < test.recs.size(); i++) if (test.recs[i].hash() != twin.recs[i].hash()) {
      StepRec const &a = test.recs[i], &b = twin.recs[i];
      std::string what = "forces";
      if (a.cv != b.cv) what = "values"; else if (a.bias_e != b.bias_e) what = "bias_energy"; else if (a.energy != b.energy) what = "energy"; else if (a.err != b.err) what = "error_bits";
      res.fail("equivalence", "routes_differ/" + what, "step " + std::to_string(a.step) + " (record " + std::to_string(i) + "): config+string route and configfile+file route differ in " + what + " (energy " + fmt_double(a.energy) + " vs " + fmt_double(b.energy) + ")");
      break;
    }
  }
  uint64_t fp = 1469598103934665603ULL; for (auto const &r : test.recs) fp = fnv_u64(r.hash(), fp);
  res.nontrivial = test.commands > 0 && !test.recs.empty();
  res.class_hash = fnv_str(plan.at("scenario").at("template").as_str(), 20);
  for (auto const &kv : test.cmd_used) res.class_hash = fnv_str(kv.first, res.class_hash);
  res.fingerprint = fnv_u64(fp, res.fingerprint);
  {
    std::set<std::string> ts;
    for (auto const &op : plan.at("ops").a) if (op.at("op").as_str() == "define" && op.has("tmpl")) ts.insert(op.at("tmpl").as_str());
    for (auto const &t : ts) res.features += (res.features.empty() ? "" : "+") + t;
  }
  return res;
}

Property make() {
  Property p;
  p.id = "C20"; p.level = "exploration"; p.design_ref = "DESIGN.md §7 C20";
  p.rule = "plan = 1-4 variables (5 kinds + a two-component combination), 1-4 biases (10 templates), then 5-30 operations drawn from {run 1-5 steps, define variable/bias, state round trip of the module or one bias, "
           "component flags, delete bias/variable, a command picked from the library's command table with typed, missing, surplus, garbage or 20 kB arguments, get/set of known and unknown features, free-form garbage commands, addforce}; "
           "twin = same plan through the other route (configfile for config, save+load for savetostring+loadfromstring); non-trivial = at least one command and one step; distinct = hash of (operation-kind sequence, set of commands used)";
  p.rule += " Later additions: modifycvcs right after the definition vs. coefficients defined so; a quarter of the plans install a scripted-force callback (addenergy, addforce) in the engine.";
  p.rule += " Fifth round: 15% of the variables have a timeStepFactor (with a restraint of the same factor); a sleeping variable must report zero applied force.";
  p.assumptions = {"agreement is checked right after each engine step, before any other command can change the module",
                   "script results carry 14 significant digits for variable values and forces (compared at 1e-12) and 6 for energies and atom forces (compared at 2e-5 / 1e-5)",
                   "commands that change what the engine owns (frame, timestep, targettemperature, molid) are issued as queries or malformed only; cv delete / reset / update are issued malformed only (their well-formed effect is covered by C13)",
                   "a failed command need not be without effect; the module must stay usable: the following steps raise no error"};
  p.real_components = {"colvarscript::run, command table and every cvscript_* command body", "colvarmodule/colvar/colvarbias as driven by those commands", "state writers/readers (string and file)", "proxy force/energy hand-over"};
  p.stub_components = {"MD engine (kinematic)", "file system (sim::FS)", "no Tcl interpreter: commands are issued through the C++ entry point colvarscript::run, as the C/Python bindings do"};
  p.gen = gen; p.run = run;
  p.quick_runs = 6000; p.thorough_runs = 150000; p.quick_secs = 70; p.thorough_secs = 900;
  p.run_timeout_s = 15;
  return p;
}
Registrar reg(make());

}  // namespace
