// C10 — invalid parameter values are reported as errors and are never fatal.
//
// The part of the statement that a simulator decides: a running module is hit by a bad request at
// an arbitrary point of its history.  Workload: valid variables and biases are defined, steps are
// taken (with trajectory/state output at small frequencies), and at seeded points a definition
// with an invalid value is injected as a fault — a valid template from the catalogue with one
// value replaced (zero, negative, huge, non-finite, non-numeric, wrong list length, missing file,
// non-existent atom or variable, boundaries swapped) or one extra keyword with such a value —
// through the same entry point a script uses, followed by more steps, output requests and further
// valid definitions.
// Oracle: (i) the worker survives: no signal, no sanitizer report (ASan/UBSan, allocation above
// the guard), no hang; (ii) every request is either accepted or raises an error; (iii) roll-back:
// a twin run that never issues the refused requests produces bit-for-bit the same values, bias
// energies, atom forces and total energy at every step, and accepts the same later definitions.
#include "simrun.h"
#include "scenario.h"
#include "deps_check.h"

#include <cmath>
#include <memory>
#include <map>
#include <set>
#include <sstream>

using namespace sim;

namespace {

// equality of recorded numbers: same value (+0 and -0 are the same number), or both not-a-number
inline bool same_num(double a, double b) { return a == b || (std::isnan(a) && std::isnan(b)); }
inline bool same_vec(std::vector<double> const &a, std::vector<double> const &b) { if (a.size() != b.size()) return false; for (size_t i = 0; i < a.size(); i++) if (!same_num(a[i], b[i])) return false; return true; }

const char *k_valid_tmpl[] = {"harm_fixed", "harm_cmove", "harm_kmove", "harm_cstage", "walls_fixed", "walls_kmove", "linear_fixed", "meta_grid", "meta_nogrid", "meta_keep", "meta_wt",
                              "histogram", "abmd", "abf", "opes", "alb", "harm_ti"};

const char *k_bad_values[] = {"0", "-1", "-0.5", "1", "1e308", "-1e308", "1e-320", "nan", "inf", "-inf", "2147483647", "2147483648", "-2147483649", "99999999999999999999",
                              "1e10", "abc", "", "1 2 3 4 5 6 7 8 9", "0 0", "-3 7", "1e-9", "4294967296", "0.0000001", "on", "{ }",
                              "1e999", "-1e999", "1e-999", "0x10", "1e", "--1", "1.5.2"};

// extra keywords per block kind, to be given a bad value
const char *k_cv_keys[] = {"width", "lowerBoundary", "upperBoundary", "timeStepFactor", "runAveLength", "runAveStride", "corrFuncLength", "corrFuncStride", "corrFuncOffset",
                           "extendedFluctuation", "extendedTimeConstant", "extendedTemp", "extendedLangevinDamping", "corrFuncWithColvar", "corrFuncType", "expandBoundaries",
                           "outputFreq", "hardLowerBoundary", "subtractAppliedForce"};
const char *k_comp_keys[] = {"componentCoeff", "componentExp", "period", "wrapAround", "forceNoPBC", "oneSiteTotalForce", "scalable"};
const char *k_group_keys[] = {"atomNumbersRange", "indexGroup", "atomsFile", "atomsCol", "atomsColValue", "dummyAtom", "centerToReference", "rotateToReference", "refPositionsFile", "refPositions",
                              "fittingGroup", "enableFitGradients", "atomNameResidueRange", "psfSegID"};
const char *k_bias_keys[] = {"timeStepFactor", "outputFreq", "historyFreq", "newHillFrequency", "gridsUpdateFrequency", "hillWeight", "hillWidth", "gaussianSigmas", "biasTemperature",
                             "fullSamples", "minSamples", "maxForce", "shared", "sharedFreq", "forceConstant", "centers", "targetNumSteps", "targetNumStages", "targetCenters",
                             "targetForceConstant", "targetForceExponent", "lambdaSchedule", "lowerWalls", "upperWalls", "lowerWallConstant", "stoppingValue", "barrier", "kernelCutoff",
                             "adaptiveSigma", "adaptiveSigmaStride", "epsilon", "neighborList", "neighborListParameter", "pmfHistoryFrequency", "multipleReplicas", "replicaID",
                             "replicasRegistry", "replicaUpdateFrequency", "rebinGrids", "writeHillsTrajectory", "keepHills", "inputPrefix", "updateFrequency", "couplingRange", "rateMax",
                             "forceRange", "integrate", "integrateTol", "integrateMaxIterations", "UIestimator", "CZARestimator", "zeroMeanForce", "bypassExtendedLagrangian", "firstStep",
                             "decoupling", "colvars", "gatherVectorColvars", "scaledBiasingForce", "scaledBiasingForceFactorsGrid", "ebMeta", "targetDistFile", "targetDistMinVal",
                             "biasfactor", "barrier", "kernelCutoff", "compressionThreshold", "gaussianSigma", "gaussianSigmaMin", "adaptiveSigmaStride", "neighborListParameters", "printTrajectoryFrequency",
                             "sharedFreq", "lowerBoundary", "upperBoundary", "width", "refHistogram", "refHistogramFile", "writeHistogram", "targetEquilSteps", "lambdaExponent", "outputCenters"};
const char *k_global_bad[] = {"colvarsTrajFrequency -1", "colvarsTrajFrequency 2147483648", "colvarsTrajFrequency abc", "colvarsRestartFrequency -7", "colvarsRestartFrequency nan",
                              "indexFile /simfs/w0/missing.ndx", "units bogus", "smp maybe", "colvarsTrajFrequency", "sourceTclFile missing.tcl", "scriptedColvarForces on",
                              "colvarsRestartFrequency 99999999999999999999", "defaultInputStateFile missing.state"};

// ---- mutation of a valid definition ----
std::vector<std::string> split_lines(std::string const &s) { std::vector<std::string> v; std::string l; std::istringstream is(s); while (std::getline(is, l)) v.push_back(l); return v; }
std::string join_lines(std::vector<std::string> const &v) { std::string s; for (auto const &l : v) s += l + "\n"; return s; }

bool is_keyval_line(std::string const &l, std::string &indent, std::string &key, std::string &rest) {
  size_t i = 0; while (i < l.size() && l[i] == ' ') i++;
  indent = l.substr(0, i);
  size_t j = i; while (j < l.size() && (isalnum((unsigned char)l[j]) || l[j] == '_')) j++;
  if (j == i) return false;
  key = l.substr(i, j - i);
  rest = j < l.size() ? l.substr(j) : "";
  if (rest.find('{') != std::string::npos && rest.find('}') == std::string::npos) return false;   // opens a block
  return true;
}

// returns the mutated text and a short label of what was done
std::string mutate(std::string const &valid, Rng &r, bool is_cv, int natoms, std::string &label) {
  std::vector<std::string> L = split_lines(valid);
  std::string bad = k_bad_values[r.below(sizeof k_bad_values / sizeof *k_bad_values)];
  if (r.chance(0.08)) { static const char *lit[] = {"1e999", "-1e999", "1e-999", "99999999999999999999", "1e308"}; bad = lit[r.below(5)]; }   // literals no number type can hold
  for (int attempt = 0; attempt < 20; attempt++) {
    double u = r.unit();
    if (u < 0.45) {
      // replace one token (or the whole value) of an existing keyword
      size_t q = r.below(L.size()); std::string ind, key, rest;
      if (!is_keyval_line(L[q], ind, key, rest) || key == "name" || rest.empty()) continue;
      if (rest.find('{') != std::string::npos) {
        // a one-line group: atomNumbers inside
        static const char *atoms_bad[] = {"0", "-3", "1000000", "1 1", "", "2147483648", "abc", "1.5"};
        std::string ab = atoms_bad[r.below(8)];
        if (ab == "1000000" && r.chance(0.5)) ab = std::to_string(natoms + 1);
        size_t a = rest.find("atomNumbers");
        if (a == std::string::npos) continue;
        size_t e = rest.find('}', a);
        L[q] = ind + key + rest.substr(0, a) + "atomNumbers " + ab + " " + rest.substr(e);
        label = "atoms=" + ab; return join_lines(L);
      }
      std::vector<std::string> tok; { std::istringstream is(rest); std::string t; while (is >> t) tok.push_back(t); }
      if (tok.empty()) continue;
      double w = r.unit();
      if (w < 0.6) { tok[r.below(tok.size())] = bad; label = key + "~" + bad; }
      else if (w < 0.75 && tok.size() > 1) { tok.pop_back(); label = key + ":shorter"; }
      else if (w < 0.9) { tok.push_back(tok.back()); label = key + ":longer"; }
      else { tok.clear(); label = key + ":empty"; }
      std::string nl = ind + key; for (auto const &t : tok) nl += " " + t;
      L[q] = nl; return join_lines(L);
    } else if (u < 0.85) {
      // one more keyword with a bad value, at top level of the block or (variables) inside the component / a group
      std::string key; size_t at = 1;
      if (is_cv) {
        double w = r.unit();
        if (w < 0.5) { key = k_cv_keys[r.below(sizeof k_cv_keys / sizeof *k_cv_keys)]; at = 1; }
        else {
          // find the component block (second '{' line) and possibly a group line
          size_t comp = 0; for (size_t q = 1; q < L.size(); q++) if (L[q].find('{') != std::string::npos && L[q].find('}') == std::string::npos) { comp = q; break; }
          if (!comp) continue;
          if (w < 0.75) { key = k_comp_keys[r.below(sizeof k_comp_keys / sizeof *k_comp_keys)]; at = comp + 1; }
          else {
            // inside a one-line group
            std::vector<size_t> gl; for (size_t q = comp + 1; q < L.size(); q++) if (L[q].find("atomNumbers") != std::string::npos) gl.push_back(q);
            if (gl.empty()) continue;
            size_t q = gl[r.below(gl.size())]; size_t e = L[q].rfind('}');
            key = k_group_keys[r.below(sizeof k_group_keys / sizeof *k_group_keys)];
            std::string v = bad; if (key.find("File") != std::string::npos && r.chance(0.6)) v = "missing.xyz";
            L[q] = L[q].substr(0, e) + key + " " + v + " " + L[q].substr(e);
            label = "group+" + key + "=" + v; return join_lines(L);
          }
        }
      } else {
        key = k_bias_keys[r.below(sizeof k_bias_keys / sizeof *k_bias_keys)];
        // half of the time a keyword that belongs to this type of bias (so that every (type, keyword, bad value) triple has a fair chance)
        {
          static const std::map<std::string, std::vector<const char *>> own = {
            {"opes_metad", {"biasfactor", "barrier", "kernelCutoff", "compressionThreshold", "gaussianSigma", "gaussianSigmaMin", "adaptiveSigma", "adaptiveSigmaStride", "neighborList", "neighborListParameters",
                            "printTrajectoryFrequency", "newHillFrequency", "epsilon", "explore", "fixedGaussianSigma", "pmf", "pmfColvars", "pmfHistoryFrequency", "calcWork", "noZed", "recursiveMerge"}},
            {"metadynamics", {"hillWeight", "hillWidth", "gaussianSigmas", "newHillFrequency", "gridsUpdateFrequency", "biasTemperature", "wellTempered", "useGrids", "rebinGrids", "keepHills", "writeHillsTrajectory",
                              "writeFreeEnergyFile", "keepFreeEnergyFiles", "ebMeta", "ebMetaEquilSteps", "targetDistFile", "targetDistMinVal", "multipleReplicas", "replicaUpdateFrequency", "expandBoundaries"}},
            {"abf", {"fullSamples", "minSamples", "maxForce", "applyBias", "hideJacobian", "historyFreq", "outputFreq", "shared", "sharedFreq", "integrate", "integrateTol", "integrateMaxIterations", "pABFintegrateFreq",
                     "updateBias", "inputPrefix", "writeCZARwindowFile", "CZARestimator", "UIestimator", "zeroMeanForce"}},
            {"harmonic", {"forceConstant", "centers", "targetCenters", "targetForceConstant", "targetNumSteps", "targetNumStages", "targetEquilSteps", "lambdaExponent", "lambdaSchedule", "decoupling", "outputCenters",
                          "outputAccumulatedWork", "writeTIPMF", "writeTISamples"}},
            {"harmonicWalls", {"forceConstant", "lowerWalls", "upperWalls", "lowerWallConstant", "upperWallConstant", "targetForceConstant", "targetNumSteps", "targetNumStages", "lambdaExponent", "decoupling", "bypassExtendedLagrangian"}},
            {"linear", {"forceConstant", "centers", "targetForceConstant", "targetNumSteps", "lambdaExponent"}},
            {"alb", {"centers", "updateFrequency", "forceRange", "rateMax", "forceConstant"}},
            {"abmd", {"forceConstant", "stoppingValue", "decreasing"}},
            {"histogram", {"outputFreq", "outputFile", "outputFileDX", "gatherVectorColvars", "weights", "histogramGrid"}}};
          std::string type = L[0].substr(0, L[0].find(' '));
          auto it = own.find(type);
          if (it != own.end() && r.chance(0.5)) key = it->second[r.below(it->second.size())];
        }
        // the keywords every bias type shares (parsed by the base class before the derived class goes on) are drawn more often
        static const char *base_keys[] = {"timeStepFactor", "colvars", "scaledBiasingForceFactorsGrid", "outputFreq", "bypassExtendedLagrangian"};
        if (r.chance(0.25)) key = base_keys[r.below(5)];
      }
      std::string v = bad;
      if ((key.find("File") != std::string::npos || key == "inputPrefix" || key == "replicasRegistry") && r.chance(0.6)) v = "missing.dat";
      if (key == "colvars" || key == "corrFuncWithColvar") v = r.chance(0.5) ? "nosuchvariable" : bad;
      if (key == "extendedFluctuation" || key == "extendedTimeConstant" || key == "extendedTemp" || key == "extendedLangevinDamping") L.insert(L.begin() + 1, "  extendedLagrangian on");
      if (key.rfind("corrFunc", 0) == 0) L.insert(L.begin() + 1, "  corrFunc on");
      if (key.rfind("runAve", 0) == 0) L.insert(L.begin() + 1, "  runAve on");
      // an existing occurrence is replaced, not duplicated
      for (size_t q = L.size(); q-- > 1;) { std::string ind, k2, rest; if (is_keyval_line(L[q], ind, k2, rest) && k2 == key && ind.size() == 2) L.erase(L.begin() + (long)q); }
      if (at > L.size() - 1) at = L.size() - 1;
      L.insert(L.begin() + (long)at, std::string(at == 1 ? "  " : "    ") + key + " " + v);
      label = "+" + key + "=" + v; return join_lines(L);
    } else if (u < 0.93 && is_cv) {
      // boundaries swapped or equal
      long lo = -1, hi = -1; for (size_t q = 0; q < L.size(); q++) { if (L[q].find("lowerBoundary") != std::string::npos) lo = (long)q; if (L[q].find("upperBoundary") != std::string::npos) hi = (long)q; }
      if (lo < 0 || hi < 0) continue;
      std::string a = L[(size_t)lo].substr(L[(size_t)lo].find("Boundary") + 8), b = L[(size_t)hi].substr(L[(size_t)hi].find("Boundary") + 8);
      if (r.chance(0.5)) { L[(size_t)lo] = "  lowerBoundary" + b; L[(size_t)hi] = "  upperBoundary" + a; label = "boundaries_swapped"; }
      else { L[(size_t)hi] = "  upperBoundary" + a; label = "boundaries_equal"; }
      return join_lines(L);
    } else {
      // a keyword line is dropped (mandatory ones included)
      size_t q = r.below(L.size()); std::string ind, key, rest;
      if (!is_keyval_line(L[q], ind, key, rest) || key == "name") continue;
      L.erase(L.begin() + (long)q); label = "-" + key; return join_lines(L);
    }
  }
  label = "unchanged"; return valid;
}

// ---- definitions over the whole component catalogue with degenerate ingredients (groups made of a dummy atom, a single atom,
// nothing, or the atoms of another group; zero axes; reference sets of the wrong length; cut-offs and exponents out of range) ----
struct CompSchema { const char *name; std::vector<const char *> groups; int extras; int value_dim; };
// extras bit mask: 1 refPositions, 2 axis, 4 vector, 8 coordination parameters, 16 hBond atoms
const CompSchema k_components[] = {
    {"distance", {"group1", "group2"}, 0, 1}, {"distanceVec", {"group1", "group2"}, 0, 3}, {"distanceDir", {"group1", "group2"}, 0, 3},
    {"distanceInv", {"group1", "group2"}, 0, 1}, {"distancePairs", {"group1", "group2"}, 0, 0}, {"distanceZ", {"main", "ref", "ref2"}, 2, 1},
    {"distanceXY", {"main", "ref", "ref2"}, 2, 1}, {"angle", {"group1", "group2", "group3"}, 0, 1}, {"dipoleAngle", {"group1", "group2", "group3"}, 0, 1},
    {"dihedral", {"group1", "group2", "group3", "group4"}, 0, 1}, {"coordNum", {"group1", "group2"}, 8, 1}, {"selfCoordNum", {"group1"}, 8, 1},
    {"groupCoord", {"group1", "group2"}, 8, 1}, {"hBond", {}, 8 | 16, 1}, {"rmsd", {"atoms"}, 1, 1}, {"gyration", {"atoms"}, 0, 1}, {"inertia", {"atoms"}, 0, 1},
    {"inertiaZ", {"atoms"}, 2, 1}, {"cartesian", {"atoms"}, 0, 0}, {"dipoleMagnitude", {"atoms"}, 0, 1}, {"eigenvector", {"atoms"}, 1 | 4, 1},
    {"orientation", {"atoms"}, 1, 4}, {"orientationAngle", {"atoms"}, 1, 1}, {"orientationProj", {"atoms"}, 1, 1}, {"tilt", {"atoms"}, 1 | 2, 1},
    {"spinAngle", {"atoms"}, 1 | 2, 1}, {"polarTheta", {"atoms"}, 0, 1}, {"polarPhi", {"atoms"}, 0, 1}, {"euler_phi", {"atoms"}, 1, 1}, {"euler_theta", {"atoms"}, 1, 1}, {"euler_psi", {"atoms"}, 1, 1}};

std::string exotic_cv(Rng &r, int natoms, std::string const &name, std::string &label, int &value_dim) {
  CompSchema const &cs = k_components[r.below(sizeof k_components / sizeof *k_components)];
  value_dim = cs.value_dim;
  std::string deg;
  auto atoms_list = [&](int n) { std::set<int> a; while ((int)a.size() < n) a.insert(1 + (int)r.below((uint64_t)natoms)); std::string t; for (int x : a) t += " " + std::to_string(x); return t; };
  auto v3 = [&](bool zero) { return zero ? std::string("(0, 0, 0)") : "(" + num(std::round(r.uniform(-2, 2) * 100) / 100) + ", " + num(std::round(r.uniform(-2, 2) * 100) / 100) + ", " + num(std::round(r.uniform(0.1, 2) * 100) / 100) + ")"; };
  std::string body, prev_atoms; size_t natoms_main = 0;
  for (size_t g = 0; g < cs.groups.size(); g++) {
    if (std::string(cs.groups[g]) == "ref2" && !r.chance(0.3)) continue;
    double u = r.unit(); std::string inner;
    if (u < 0.5 || (g == 0 && u < 0.6)) { int n = (int)r.range(1, 5); std::string a = atoms_list(n); inner = "atomNumbers" + a; prev_atoms = a; if (g == 0) natoms_main = (size_t)n; }
    else if (u < 0.7) { inner = "dummyAtom " + v3(r.chance(0.3)); deg += std::string(deg.empty() ? "" : "+") + "dummy"; }
    else if (u < 0.8 && !prev_atoms.empty()) { inner = "atomNumbers" + prev_atoms; deg += std::string(deg.empty() ? "" : "+") + "same_atoms"; }
    else if (u < 0.88) { inner = ""; deg += std::string(deg.empty() ? "" : "+") + "empty"; }
    else if (u < 0.94) { inner = "atomNumbersRange " + std::to_string(r.range(1, natoms)) + "-" + std::to_string(r.range(1, natoms + 2)); deg += std::string(deg.empty() ? "" : "+") + "range"; if (g == 0) natoms_main = 2; }
    else { inner = "atomNumbers" + atoms_list((int)r.range(1, 3)) + " " + (r.chance(0.5) ? "centerToReference on" : "rotateToReference on"); deg += std::string(deg.empty() ? "" : "+") + "fit_without_reference"; }
    body += std::string("    ") + cs.groups[g] + " { " + inner + " }\n";
  }
  if (cs.extras & 16) { body += "    acceptor " + std::to_string(r.range(0, natoms + 1)) + "\n    donor " + std::to_string(r.range(0, natoms + 1)) + "\n"; }
  if (cs.extras & 1) {
    long n = (long)natoms_main + (r.chance(0.25) ? (r.chance(0.5) ? 1 : -1) : 0); if (n < 0) n = 0;
    bool allzero = r.chance(0.15); if (allzero) deg += std::string(deg.empty() ? "" : "+") + "reference_all_zero"; if (n != (long)natoms_main) deg += std::string(deg.empty() ? "" : "+") + "reference_count";
    body += "    refPositions"; for (long i = 0; i < n; i++) body += " " + v3(allzero); body += "\n";
    if (cs.extras & 4) { body += "    vector"; long nv = r.chance(0.2) ? n + 1 : n; bool vz = r.chance(0.2); if (vz) deg += std::string(deg.empty() ? "" : "+") + "vector_zero"; for (long i = 0; i < nv; i++) body += " " + v3(vz); body += "\n"; if (r.chance(0.3)) body += "    differenceVector on\n"; if (r.chance(0.3)) body += "    normalizeVector on\n"; }
  }
  if ((cs.extras & 2) && r.chance(0.6)) { bool z = r.chance(0.4); if (z) deg += std::string(deg.empty() ? "" : "+") + "axis_zero"; body += "    axis " + v3(z) + "\n"; }
  if (cs.extras & 8) {
    static const char *cut[] = {"4.0", "0", "-1", "1e300", "1e-300"}; static const char *ex[][2] = {{"6", "12"}, {"0", "0"}, {"6", "6"}, {"3", "4"}, {"-2", "4"}, {"12", "6"}, {"1000000", "2000000"}};
    size_t c = r.chance(0.6) ? 0 : r.below(5), x = r.chance(0.6) ? 0 : r.below(7);
    if (c) deg += std::string(deg.empty() ? "" : "+") + "cutoff=" + cut[c]; if (x) deg += std::string(deg.empty() ? "" : "+") + "exponents=" + ex[x][0] + "/" + ex[x][1];
    body += std::string("    cutoff ") + cut[c] + "\n    expNumer " + ex[x][0] + "\n    expDenom " + ex[x][1] + "\n";
    if (std::string(cs.name) == "coordNum" && r.chance(0.4)) { body += "    tolerance " + std::string(r.chance(0.7) ? "0.001" : "-1") + "\n    pairListFrequency " + std::to_string(r.chance(0.8) ? r.range(1, 5) : 0) + "\n"; if (r.chance(0.3)) body += "    group2CenterOnly on\n"; }
  }
  std::string top = "colvar {\n  name " + name + "\n  width 0.5\n";
  if (r.chance(0.2)) top += "  outputVelocity on\n";
  if (r.chance(0.15)) top += "  outputTotalForce on\n";
  if (r.chance(0.15)) top += "  outputAppliedForce on\n";
  label = std::string("exotic:") + cs.name + (deg.empty() ? "" : ":" + deg);
  return top + "  " + cs.name + " {\n" + body + "  }\n}\n";
}

J gen(uint64_t seed, bool thorough) {
  Rng r(seed, 10);
  EngineCfg ec;
  ec.natoms = (int)r.range(10, 16);
  ec.data_seed = r.next() >> 12; ec.noise_seed = r.next() >> 12;
  ec.dt = 1.0; ec.temperature = 300.0; ec.forces_late = r.chance(0.3);
  ec.traj_amp = r.uniform(0.5, 1.3);
  TrajModel m; m.build(ec.data_seed, ec.natoms, ec.traj_amp, ec.force_amp, false);
  long T = 60;
  J plan = J::obj();
  plan["v"] = 1; plan["property"] = "C10"; plan["seed"] = (long long)seed;
  J sc = J::obj();
  J e = J::obj(); ec.to_json(e); sc["engine"] = e;
  sc["config"] = global_config((int)r.range(1, 3), r.chance(0.5) ? (int)r.range(1, 4) : 0, false);
  sc["T"] = (long long)T;
  J ops = J::arr();
  struct LiveCv { std::string name; CvSpec spec; std::pair<double, double> range; };
  std::vector<LiveCv> cvs;
  int ncv = 0, nb = 0, nbad = 0;
  std::vector<std::string> names;   // names of the valid biases
  std::vector<std::pair<std::string, int>> exotic;   // catalogue-wide definitions requested so far: name, dimension of the value
  static const char *kinds[] = {"distance", "distanceZ", "dihedral", "angle", "distanceXY"};
  std::string sig;
  auto add_cv = [&]() {
    LiveCv c; c.name = "v" + std::to_string(ncv++);
    c.spec = make_cv(r, ec.natoms, kinds[r.below(5)], c.name);
    place_grid(c.spec, m, T, r, (int)r.range(4, 10), 1.4);
    double lo, hi; cv_range(c.spec, m, T, lo, hi); c.range = {lo, hi};
    J op = J::obj(); op["w"] = 0; op["op"] = "addcv"; op["name"] = c.name; op["config"] = c.spec.config();
    ops.push(op); cvs.push_back(c); sig += "C";
    // every valid variable carries one permanent restraint, so that it never goes to sleep when a later bias on it is refused (C13 finding)
    std::vector<CvSpec> sub{c.spec}; std::vector<std::pair<double, double>> rg{c.range};
    std::string bn = "p" + std::to_string(nb++); names.push_back(bn);
    BiasSpec bs = make_bias(c.spec.periodic() ? "harm_fixed" : (r.chance(0.5) ? "harm_fixed" : "walls_fixed"), r, sub, rg, T, bn);
    J ob = J::obj(); ob["w"] = 0; ob["op"] = "addbias"; ob["name"] = bn; ob["config"] = bs.config; ob["tmpl"] = bs.tmpl; ops.push(ob);
  };
  auto valid_bias = [&](std::string &tmpl, std::string &name) -> std::string {
    for (;;) {
      tmpl = k_valid_tmpl[r.below(sizeof k_valid_tmpl / sizeof *k_valid_tmpl)];
      int k = std::min<int>((int)cvs.size(), std::min(2, bias_template_max_cv(tmpl)));
      k = (int)r.range(1, k);
      std::vector<size_t> idx; for (size_t q = 0; q < cvs.size(); q++) idx.push_back(q);
      for (size_t q = idx.size() - 1; q > 0; q--) std::swap(idx[q], idx[r.below(q + 1)]);
      idx.resize((size_t)k);
      bool per = false; for (size_t q : idx) per = per || cvs[q].spec.periodic();
      if (per && (tmpl.rfind("linear", 0) == 0 || tmpl.rfind("walls", 0) == 0 || tmpl == "abmd" || tmpl == "alb")) continue;
      std::vector<CvSpec> sub; std::vector<std::pair<double, double>> rg;
      for (size_t q : idx) { sub.push_back(cvs[q].spec); rg.push_back(cvs[q].range); }
      name = "b" + std::to_string(nb++);
      return make_bias(tmpl, r, sub, rg, 30, name).config;
    }
  };
  // half of the plans work with an index file: a valid one first, later (as a fault) one that redefines its group differently
  bool use_index = r.chance(0.5);
  std::string idx_atoms;
  if (use_index) {
    std::vector<std::vector<int>> g = pick_groups(r, ec.natoms, 1, 3);
    for (int a : g[0]) idx_atoms += " " + std::to_string(a + 1);
    J op = J::obj(); op["w"] = 0; op["op"] = "global"; op["name"] = "idx0"; op["config"] = "indexFile idx0.ndx\n";
    J put = J::obj(); put["idx0.ndx"] = "[ grp ]\n" + idx_atoms + "\n"; op["put"] = put; ops.push(op); sig += "I";
  }
  auto add_index_cv = [&]() {
    // a variable that takes one of its groups from the index file
    LiveCv c; c.name = "v" + std::to_string(ncv++);
    c.spec = make_cv(r, ec.natoms, "distance", c.name);
    place_grid(c.spec, m, T, r, (int)r.range(4, 10), 1.4);
    c.range = {0.0, 30.0};
    std::string cfg = c.spec.config(); size_t p = cfg.find("group1 {"); size_t q = cfg.find('}', p);
    cfg.replace(p, q - p + 1, "group1 { indexGroup grp }");
    J op = J::obj(); op["w"] = 0; op["op"] = "addcv"; op["name"] = c.name; op["config"] = cfg; ops.push(op); sig += "Ci";
    // (not entered in `cvs`: the harness cannot evaluate it, so no catalogue bias is built on it; it gets its own restraint)
    std::string bn = "p" + std::to_string(nb++); names.push_back(bn);
    J ob = J::obj(); ob["w"] = 0; ob["op"] = "addbias"; ob["name"] = bn; ob["tmpl"] = "harm_fixed"; ob["config"] = "harmonic {\n  name " + bn + "\n  colvars " + c.name + "\n  centers " + num(r.uniform(2, 12)) + "\n  forceConstant " + num(r.uniform(0.5, 10)) + "\n}\n"; ops.push(ob);
  };
  int ninit = (int)r.range(1, 3);
  for (int i = 0; i < ninit; i++) add_cv();
  if (use_index && r.chance(0.6)) add_index_cv();
  int nops = (int)r.range(4, thorough ? 24 : 12);
  long steps = 0;
  for (int i = 0; i < nops; i++) {
    double u = r.unit();
    J op = J::obj(); op["w"] = 0;
    if (u < 0.08 && cvs.size() < 4) { if (use_index && r.chance(0.5)) add_index_cv(); else add_cv(); continue; }
    if (u < 0.2) {
      std::string t, n; op["config"] = valid_bias(t, n);
      op["op"] = "addbias"; op["name"] = n; op["tmpl"] = t; sig += "B";
    } else if (u < 0.62) {
      std::string label;
      double w = r.unit();
      if (w < 0.4) {
        std::string n = "x" + std::to_string(nbad++);
        op["op"] = "bad"; op["name"] = n; op["what"] = "cv";
        if (r.chance(0.12)) {
          // legacy wall keywords inside the variable (the library turns them into a generated harmonicWalls block), in the right or
          // the wrong order, next to another value that is refused later in the same definition
          CvSpec s = make_cv(r, ec.natoms, kinds[r.below(5)], n);
          place_grid(s, m, T, r, (int)r.range(4, 10), 1.4);
          bool swapped = r.chance(0.4); double a = std::round(r.uniform(0.5, 3) * 10) / 10, b = a + std::round(r.uniform(0.5, 3) * 10) / 10;
          s.extra += "  lowerWall " + num(swapped ? b : a) + "\n  upperWall " + num(swapped ? a : b) + "\n  lowerWallConstant " + num(std::round(r.uniform(0.5, 5) * 10) / 10) + "\n  upperWallConstant 2.0\n";
          std::string also;
          if (r.chance(0.6)) { static const char *bad2[] = {"  extendedLagrangian on\n  extendedFluctuation -1\n", "  timeStepFactor 0\n", "  runAve on\n  runAveLength 0\n", "  corrFunc on\n  corrFuncWithColvar nosuchvariable\n"}; also = bad2[r.below(4)]; s.extra += also; }
          op["config"] = s.config(); label = std::string("legacyWalls:") + (swapped ? "swapped" : "ordered") + (also.empty() ? "" : "+refused_later");
        } else if (r.chance(0.4)) {
          int dim = 1; op["config"] = exotic_cv(r, ec.natoms, n, label, dim);
          exotic.emplace_back(n, dim);
        } else {
          CvSpec s = make_cv(r, ec.natoms, kinds[r.below(5)], n);
          place_grid(s, m, T, r, (int)r.range(4, 10), 1.4);
          op["config"] = mutate(s.config(), r, true, ec.natoms, label);
        }
      } else if (w < 0.92) {
        std::string t, n; std::string cfg = valid_bias(t, n);
        op["op"] = "bad"; op["name"] = n; op["what"] = "bias"; op["tmpl"] = t;
        if (!cvs.empty() && r.chance(0.12)) {
          // bias types outside the shared catalogue, with degenerate geometry: a distribution restraint; multiple-walker set-ups with frequency zero
          double u2 = r.unit(); std::string v0 = cvs[r.below(cvs.size())].name;
          if (u2 < 0.5) {
            static const char *lo_hi[][2] = {{"0", "4"}, {"4", "0"}, {"2", "2"}, {"0", "1e300"}, {"-1e300", "1e300"}, {"0", "4"}, {"0", "4"}};
            static const char *wd[] = {"0.5", "0", "-1", "1e-300", "1e300", "0.5", "3.9"};
            static const char *rh[] = {"1 1 1 1 1 1 1 1", "1 1", "", "0 0 0 0 0 0 0 0", "-1 1 -1 1 -1 1 -1 1", "1e308 1e308 1e308 1e308 1e308 1e308 1e308 1e308", "nan 1 1 1 1 1 1 1"};
            size_t a = r.below(7), b = r.below(7), c = r.below(7);
            op["tmpl"] = "histogram_restraint";
            op["config"] = "histogramRestraint {\n  name " + n + "\n  colvars " + v0 + "\n  lowerBoundary " + lo_hi[a][0] + "\n  upperBoundary " + lo_hi[a][1] + "\n  width " + wd[b] +
                           "\n  refHistogram " + rh[c] + "\n  forceConstant " + (r.chance(0.8) ? "2.0" : "-1") + (r.chance(0.3) ? "\n  gaussianSigma 0" : "") + (r.chance(0.3) ? "\n  writeHistogram on" : "") + "\n}\n";
            label = std::string("histogramRestraint:") + lo_hi[a][0] + ".." + lo_hi[a][1] + "/" + wd[b] + "/" + std::to_string(c);
          } else {
            std::string t2, n2; std::string cfg2;
            for (int tries = 0; tries < 20; tries++) { cfg2 = valid_bias(t2, n2); if (t2.compare(0, 4, "meta") == 0 || t2 == "opes") break; }
            size_t q = cfg2.find("name " + n2); if (q != std::string::npos) cfg2.replace(q, 5 + n2.size(), "name " + n);
            static const char *fr[] = {"0", "-1", "3", "0", "2147483648"};
            std::string f1 = fr[r.below(5)], f2 = fr[r.below(5)];
            size_t hf = cfg2.find("  newHillFrequency"); if (hf != std::string::npos && r.chance(0.5)) cfg2.replace(hf, cfg2.find('\n', hf) - hf, "  newHillFrequency " + f2);
            cfg2.insert(cfg2.rfind("}"), std::string("  multipleReplicas on\n  replicaID w0\n") + (t2 == "opes" ? "  sharedFreq " + f1 + "\n" : "  replicasRegistry /simfs/shared/reg_" + n + ".txt\n  replicaUpdateFrequency " + f1 + "\n"));
            size_t kh; while ((kh = cfg2.find("  keepHills on\n")) != std::string::npos) cfg2.erase(kh, 15);
            op["tmpl"] = t2; op["config"] = cfg2; label = "multipleReplicas:" + t2 + ":freq=" + f1 + "/" + f2;
          }
        } else if (!exotic.empty() && r.chance(0.2)) {
          // a restraint on one of the catalogue-wide definitions above (which may or may not have been accepted), so that forces flow through it
          auto const &x = exotic[r.below(exotic.size())];
          std::string c = x.second == 3 ? "(1, 0, 0)" : x.second == 4 ? "(1, 0, 0, 0)" : num(std::round(r.uniform(0, 5) * 10) / 10);
          if (r.chance(0.15)) c = "1.0";
          op["tmpl"] = "harm_fixed";
          op["config"] = "harmonic {\n  name " + n + "\n  colvars " + x.first + "\n  centers " + c + "\n  forceConstant " + num(std::round(r.uniform(0.1, 5) * 10) / 10) + "\n}\n"; label = "exotic:restraint";
        } else if (r.chance(0.08) && !names.empty()) {
          // a name that is already taken
          std::string taken = names[r.below(names.size())];
          size_t q = cfg.find("name " + n);
          if (q != std::string::npos) cfg.replace(q, 5 + n.size(), "name " + taken);
          op["config"] = cfg; label = "name=taken";
        } else op["config"] = mutate(cfg, r, false, ec.natoms, label);
      } else if (use_index && r.chance(0.6)) {
        // an index file that redefines the group with other atoms (refused), or defines it again identically (accepted)
        std::string fname = "idx" + std::to_string(1 + nbad) + ".ndx"; bool same = r.chance(0.25);
        std::string atoms = idx_atoms; if (!same) { std::vector<std::vector<int>> g = pick_groups(r, ec.natoms, 1, 3); atoms.clear(); for (int a : g[0]) atoms += " " + std::to_string(a + 1); atoms += " " + std::to_string(1 + (int)r.below((uint64_t)ec.natoms)); }
        op["op"] = "bad"; op["name"] = "g" + std::to_string(nbad++); op["what"] = "global";
        label = same ? "indexFile:same_group_again" : "indexFile:group_redefined";
        op["config"] = "indexFile " + fname + "\n";
        J put = J::obj(); put[fname] = "[ grp ]\n" + atoms + "\n"; op["put"] = put;
      } else {
        op["op"] = "bad"; op["name"] = "g" + std::to_string(nbad++); op["what"] = "global";
        label = k_global_bad[r.below(sizeof k_global_bad / sizeof *k_global_bad)];
        op["config"] = label + "\n";
      }
      op["label"] = label; sig += "X";
    } else if (u < 0.7) {
      op["op"] = "output"; op["name"] = ""; sig += "o";
    } else {
      long n = r.range(1, 8);
      op["op"] = "run"; op["name"] = ""; op["n"] = (long long)n; op["graceful"] = r.chance(0.4); steps += n; sig += "r";
    }
    ops.push(op);
  }
  { J op = J::obj(); op["w"] = 0; op["op"] = "run"; op["name"] = ""; op["n"] = (long long)r.range(3, 9); op["graceful"] = true; ops.push(op); sig += "r"; }
  sc["template"] = sig.size() > 24 ? sig.substr(0, 24) : sig;
  plan["scenario"] = sc;
  plan["ops"] = ops;
  return plan;
}

std::string plan_features(J const &plan) {
  J const &ops = plan.at("ops");
  std::set<std::string> ts; std::string out;
  for (size_t i = 0; i < ops.size(); i++) if (ops.a[i].at("op").as_str() == "bad") {
    std::string l = ops.a[i].at("label").as_str(); size_t c = l.find_first_of("~=:");
    std::string key = l.substr(0, c); while (!key.empty() && (key[0] == '+' || key[0] == '-')) key.erase(0, 1);
    if (key.rfind("group", 0) == 0 && key.size() > 6) key = key.substr(6);
    ts.insert(ops.a[i].at("what").as_str() + ":" + key);
  }
  for (auto const &t : ts) out += (out.empty() ? "" : ",") + t;
  return out;
}

struct Snap { long step; std::map<std::string, std::string> feat; std::map<std::string, std::vector<double>> cv; std::map<std::string, double> be; std::vector<double> fapp; double energy; int err; std::string errmsg; };
struct Outcome { std::vector<Snap> snaps; std::vector<bool> refused, accepted_bad; std::vector<std::string> msg; long silent = 0; std::string silent_what; std::string deps_err, deps_sig; long deps_objects = 0; };

size_t n_objects() { return cvm::main()->variables()->size() + cvm::main()->biases.size(); }

Outcome execute(J const &plan, std::vector<bool> const *skip, RunResult &res, bool count) {
  Outcome out;
  EngineCfg ec; std::string config; long T;
  scenario_from_json(plan.at("scenario"), ec, config, T);
  std::unique_ptr<Engine> e(new Engine(ec));
  e->configure(config);
  Engine *ep = e.get();
  e->after_step = [&out, ep](long step) {
    Snap s; s.step = step;
    StepRec const &r = ep->rec.back();
    size_t k = 0;
    for (colvar *cv : *ep->colvars->variables()) { s.cv[cv->name] = std::vector<double>(r.cv.begin() + r.cv_off[k], r.cv.begin() + r.cv_off[k + 1]); k++; }
    k = 0;
    for (colvarbias *b : ep->colvars->biases) s.be[b->name] = r.bias_e[k++];
    s.fapp = r.fapp; s.energy = r.energy; s.err = r.err; if (r.err) s.errmsg = ep->last_error();
    s.feat = module_features(ep->colvars);
    out.snaps.push_back(s);
  };
  J const &ops = plan.at("ops");
  out.refused.assign(ops.size(), false); out.accepted_bad.assign(ops.size(), false); out.msg.assign(ops.size(), "");
  for (size_t i = 0; i < ops.size(); i++) {
    if (skip && (*skip)[i]) continue;
    J const &op = ops.a[i];
    std::string k = op.at("op").as_str(), nm = op.at("name").as_str();
    cvm::clear_error();
    if (op.has("put")) for (auto const &kv : op.at("put").o) fs().put("/simfs/w0/" + kv.first, kv.second.as_str());
    if (k == "global") { e->run_script({"cv", "config", op.at("config").as_str()}); continue; }
    if (k == "addcv" || k == "addbias" || k == "bad") {
      size_t before = n_objects();
      uint64_t nerr0 = e->n_err;
      int rc = e->run_script({"cv", "config", op.at("config").as_str()});
      bool raised = rc != COLVARS_OK || cvm::get_error() != COLVARS_OK || e->n_err != nerr0;
      bool grew = n_objects() > before;
      if (k == "bad" && op.at("what").as_str() == "global") { if (raised) out.refused[i] = true; else out.accepted_bad[i] = true; }
      else if (!grew) {
        out.refused[i] = true; out.msg[i] = e->last_error();
        // (ii) a refusal must come with an error
        if (!raised) { out.silent++; if (out.silent_what.empty()) out.silent_what = nm + (k == "bad" ? " (" + op.at("label").as_str() + ")" : ""); }
      } else if (k == "bad") out.accepted_bad[i] = true;
      if (count && out.deps_err.empty()) {
        std::string sig; std::string err = check_deps(e->colvars, sig, &out.deps_objects);
        if (!err.empty()) { out.deps_err = err; out.deps_sig = sig + "/after_" + k + (out.refused[i] ? "_refused" : "_accepted"); }
      }
      if (count && k == "bad") res.counters[std::string("fault.bad_") + op.at("what").as_str() + (out.refused[i] ? ".refused" : ".accepted")]++;
    } else if (k == "output") {
      e->run_script({"cv", "save", "out"});
      e->end_run();
    } else if (k == "run") {
      cvm::clear_error();
      e->run((int)op.at("n").as_int(1), op.at("graceful").as_bool(false));
    }
  }
  add_steps(res, *e);
  return out;
}

RunResult run(J const &plan) {
  RunResult res;
  uint64_t fp = 1469598103934665603ULL;
  Outcome test, twin;
  { SimRun sim(1); test = execute(plan, nullptr, res, true); sim.finish(res); }
  long nref = 0, nacc = 0; for (size_t i = 0; i < test.refused.size(); i++) { if (test.refused[i]) nref++; if (test.accepted_bad[i]) nacc++; }
  std::vector<bool> skip = test.refused;
  { SimRun sim(1); twin = execute(plan, &skip, res, false); sim.finish(res); }
  res.counters["probe.requests_refused"] += nref;
  res.counters["probe.bad_requests_accepted"] += nacc;
  // a valid definition refused in the run with faults (and hence never issued in the twin) is a failure of roll-back by itself:
  J const &ops = plan.at("ops");
  std::string first_refused_label;
  bool bad_refused_before = false;
  for (size_t i = 0; i < ops.size() && !res.violation; i++) {
    std::string k = ops.a[i].at("op").as_str();
    if (k == "bad" && test.refused[i]) { bad_refused_before = true; if (first_refused_label.empty()) first_refused_label = ops.a[i].at("label").as_str(); }
    if ((k == "addcv" || k == "addbias") && test.refused[i]) {
      // was it the bad requests' doing?  run the valid prefix alone to find out
      res.counters["probe.valid_definition_refused"]++;
      if (bad_refused_before) {
        std::vector<bool> only_valid(ops.size(), false);
        for (size_t q = 0; q < ops.size(); q++) only_valid[q] = q > i || (q < i && test.refused[q]);
        RunResult scratch; Outcome ref;
        { SimRun sim(1); ref = execute(plan, &only_valid, scratch, false); sim.finish(scratch); }
        if (!ref.refused[i]) res.fail("rollback", "valid_definition_refused_after_bad_request", ops.a[i].at("name").as_str() + " is accepted on its own but refused after the refused request(s): " + test.msg[i]);
      }
    }
  }
  res.counters["probe.dependency_objects_checked"] += test.deps_objects;
  if (!res.violation && !test.deps_err.empty()) res.fail("dependency_graph", test.deps_sig, test.deps_err);
  if (!res.violation && test.silent) res.fail("reporting", "refused_without_error", "definition " + test.silent_what + " created no object and raised no error");
  if (!res.violation && test.snaps.size() != twin.snaps.size()) res.fail("rollback", "step_count", std::to_string(test.snaps.size()) + " vs " + std::to_string(twin.snaps.size()));
  // a variable without a permanent restraint of its own (the catalogue-wide and mutated definitions, named x...) goes to sleep when
  // the only bias requested on it is refused (recorded finding C13-VARIABLE-SLEEPS-AFTER-LAST-BIAS): its value is not compared
  std::set<std::string> may_sleep;
  for (size_t i = 0; i < ops.size(); i++) {
    if (ops.a[i].at("op").as_str() != "bad" || ops.a[i].at("what").as_str() != "bias" || !test.refused[i]) continue;
    std::string cfg = ops.a[i].at("config").as_str(); size_t p = cfg.find("colvars ");
    if (p == std::string::npos) continue;
    std::istringstream is(cfg.substr(p + 8, cfg.find('\n', p) - p - 8)); std::string n;
    while (is >> n) if (n[0] == 'x') may_sleep.insert(n);
  }
  if (!may_sleep.empty()) res.counters["probe.runs_with_variable_left_without_bias_by_refusal"]++;
  long compared = 0;
  size_t at_i = 0;
  for (size_t i = 0; i < test.snaps.size() && !res.violation; i++) {
    Snap const &a = test.snaps[i], &b = twin.snaps[i];
    at_i = i;
    std::string at = "step " + std::to_string(a.step) + " (record " + std::to_string(i) + ")";
    if (a.cv.size() != b.cv.size() || a.be.size() != b.be.size()) { res.fail("rollback", "object_sets_differ", at + ": " + std::to_string(a.cv.size()) + "+" + std::to_string(a.be.size()) + " objects, twin " + std::to_string(b.cv.size()) + "+" + std::to_string(b.be.size())); break; }
    if (a.err != b.err) {
      std::string m = a.err ? a.errmsg : b.errmsg; std::string cls;
      for (char ch : m) { if (ch == '"') break; if (!isdigit((unsigned char)ch) && ch != '\n') cls += ch; }
      while (!cls.empty() && cls[0] == ' ') cls.erase(0, 1);
      if (cls.size() > 60) cls.resize(60);
      res.fail("rollback", "error_raised_only_" + std::string(a.err ? "after_refused_request" : "in_twin") + "/" + cls, at + ": error bits " + std::to_string(a.err) + ", twin " + std::to_string(b.err) + ": " + m);
      break;
    }
    for (auto const &kv : b.cv) {
      auto it = a.cv.find(kv.first);
      if (it == a.cv.end()) { res.fail("rollback", "object_sets_differ", at + ": variable " + kv.first + " missing"); break; }
      if (may_sleep.count(kv.first)) continue;
      if (!same_vec(it->second, kv.second)) { res.fail("rollback", "value", at + ": variable " + kv.first + " = " + fmt_double(it->second.empty() ? 0 : it->second[0]) + ", twin " + fmt_double(kv.second.empty() ? 0 : kv.second[0])); break; }
      compared++;
    }
    if (res.violation) break;
    for (auto const &kv : b.be) {
      auto it = a.be.find(kv.first);
      if (it == a.be.end()) { res.fail("rollback", "object_sets_differ", at + ": bias " + kv.first + " missing"); break; }
      if (!same_num(it->second, kv.second)) { res.fail("rollback", "bias_energy", at + ": bias " + kv.first + " energy " + fmt_double(it->second) + ", twin " + fmt_double(kv.second)); break; }
    }
    if (res.violation) break;
    if (!same_vec(a.fapp, b.fapp)) {
      size_t k = 0; while (k < a.fapp.size() && k < b.fapp.size() && a.fapp[k] == b.fapp[k]) k++;
      res.fail("rollback", "atom_force", at + ": force component " + std::to_string(k) + " = " + fmt_double(k < a.fapp.size() ? a.fapp[k] : 0) + ", twin " + fmt_double(k < b.fapp.size() ? b.fapp[k] : 0));
    } else if (!same_num(a.energy, b.energy)) res.fail("rollback", "total_energy", at + ": " + fmt_double(a.energy) + ", twin " + fmt_double(b.energy));
    fp = fnv_dbl(a.energy, fp);
  }
  if (res.violation && res.oracle == "rollback" && at_i < test.snaps.size() && at_i < twin.snaps.size()) {
    // diagnostic: a capability left switched on (or off) by the refused request
    std::string fsig, ftext;
    if (feature_difference(test.snaps[at_i].feat, twin.snaps[at_i].feat, fsig, ftext)) { res.signature += "/with_" + fsig; res.detail += "; " + ftext; }
  }
  res.counters["probe.survivor_values_compared"] += compared;
  res.nontrivial = (nref + nacc) > 0 && !test.snaps.empty();
  res.class_hash = fnv_str(plan.at("scenario").at("template").as_str(), 10);
  // distinct also by what was injected
  for (size_t i = 0; i < ops.size(); i++) if (ops.a[i].at("op").as_str() == "bad") { std::string l = ops.a[i].at("label").as_str(); size_t c = l.find_first_of("~=:"); res.class_hash = fnv_str(l.substr(0, c), res.class_hash); }
  res.fingerprint = fnv_u64(fp, res.fingerprint);
  res.features = plan_features(plan);
  return res;
}

Property make() {
  Property p;
  p.id = "C10"; p.level = "exploration"; p.design_ref = "DESIGN.md §7 C10";
  p.rule = "plan = 1-4 valid variables (each with a permanent restraint), then 4-24 operations drawn from {valid bias (17 templates), invalid definition injected as a fault (variable / bias / module keyword: "
           "one value of a valid template replaced by one of 25 bad values, list shortened/lengthened/emptied, an extra keyword out of ~100 with a bad value, atom numbers out of range, "
           "boundaries swapped, a keyword dropped, a missing file), output request, run 1-8 steps with or without a graceful end}; twin = same plan without the refused requests; "
           "non-trivial = at least one invalid request and one step; distinct = hash of (operation-kind sequence, mutated keywords)";
  p.rule += " Later additions: 40% of the invalid variable requests come from the whole component catalogue (31 types) with degenerate groups, axes, references, cut-offs, exponents; bias keywords are drawn half of the time from the bias type's own list; literals no number type can hold; histogramRestraint and multiple-walker requests with frequency zero.";
  p.rule += " Fifth round: 12% of the invalid variable requests carry legacy wall keywords next to a value refused later.";
  p.assumptions = {"kinematic engine; a request the library accepts (the value turned out to be tolerated) stays in both runs and is only exercised for survival on the following steps and outputs",
                   "bitwise equality with the twin is required for every object defined by a valid request",
                   "the vocabulary of bad values is input generation, not simulation: what this check decides is the behaviour of a running module around the refused request"};
  p.real_components = {"colvarmodule::parse_config and every object's init() path", "colvarparse value checks", "colvardeps", "object destructors on the error path", "colvarscript config/save", "per-step frequency arithmetic (step % freq sites)"};
  p.stub_components = {"MD engine (kinematic)", "file system (sim::FS)"};
  p.gen = gen; p.run = run; p.plan_features = plan_features;
  p.quick_runs = 6000; p.thorough_runs = 150000; p.quick_secs = 70; p.thorough_secs = 900;
  p.run_timeout_s = 8; p.confirm_timeout_factor = 1;   // (the recorded hang allocates without bound while it loops: do not let a replay run for long)
  return p;
}
Registrar reg(make());

}  // namespace
