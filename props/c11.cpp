// C11 — state files are crash-consistent; damaged state never crashes the host;
// the binary stream round-trips every value type.
//
// mode "crash"  : a run with periodic state replacement is executed on the simulated disk with
//                 a mutation journal; for EVERY boundary between two file calls after the first
//                 completed state (and sampled byte offsets inside every write) the disk image at
//                 that instant is reconstructed and a fresh instance must recover a complete
//                 state (new file or .old) equal to one of the states that were completed.
// mode "damage" : valid text/binary states are truncated, bit-flipped, have ranges removed or
//                 duplicated; loading must return (no signal, sanitizer report, hang, huge
//                 allocation) and a cut strictly inside a block must be an error.
// mode "stream" : sequences of memory_stream writes of every accepted type are read back
//                 exactly; reads from a buffer truncated at every byte fail cleanly.
#include "simrun.h"
#include "scenario.h"
#include "colvars_memstream.h"

#include <cmath>
#include <memory>
#include <set>

using namespace sim;

namespace {

const std::vector<std::string> k_templates = {"harm_fixed", "harm_cmove", "harm_kmove", "walls_fixed", "linear_fixed", "abmd",
                                              "abf", "meta_grid", "meta_keep", "histogram", "harm_ti", "harm_cstage"};

J gen(uint64_t seed, bool thorough) {
  Rng r(seed, 11);
  J plan = J::obj();
  plan["v"] = 1; plan["property"] = "C11"; plan["seed"] = (long long)seed;
  double u = r.unit();
  std::string mode = u < 0.45 ? "crash" : (u < 0.85 ? "damage" : "stream");
  J ops = J::arr();
  if (mode == "stream") {
    J sc = J::obj(); sc["template"] = "stream"; sc["mode"] = mode;
    plan["scenario"] = sc;
    static const char *types[] = {"size_t", "int", "double", "string", "cv_scalar", "cv_3vector", "cv_unit3vector", "cv_quaternion",
                                  "cv_vector", "vector1d", "vec_char", "vec_int", "vec_double", "vec_pair16", "vec_rvector", "vec_size_t", "bool"};
    int n = (int)r.range(1, thorough ? 14 : 8);
    for (int i = 0; i < n; i++) {
      J op = J::obj();
      op["w"] = 0; op["op"] = "put"; op["t"] = types[r.below(sizeof types / sizeof *types)];
      op["len"] = (long long)(r.chance(0.15) ? 0 : r.range(1, 9)); op["vs"] = (long long)(r.next() >> 20);
      ops.push(op);
    }
    plan["ops"] = ops;
    return plan;
  }
  ScenOpts o;
  o.T = mode == "crash" ? r.range(6, thorough ? 30 : 14) : r.range(4, 16);
  o.max_biases = 2; o.max_cvs = 2; o.templates = k_templates; o.allow_mts = false; o.p_extended = 0.1;
  if (mode == "damage") { o.templates = bias_templates(); }
  bool mw = mode == "crash" && r.chance(0.25);   // a multiple-walker metadynamics bias: its replica state file is replaced as well
  if (mw) o.templates = {"meta_grid", "meta_nogrid", "meta_wt"};
  Scenario sc = gen_scenario(r, o);
  if (mw) {
    size_t p = sc.config.find("metadynamics {");
    if (p != std::string::npos) { size_t q = sc.config.find("\n}", p); sc.config.insert(q + 1, "  multipleReplicas on\n  replicaID w0\n  replicasRegistry /simfs/shared/registry.txt\n  replicaUpdateFrequency " + std::to_string(r.range(2, 5)) + "\n"); sc.tmpl += "+mw"; }
    size_t k; while ((k = sc.config.find("  keepHills on\n")) != std::string::npos) sc.config.erase(k, 15);
    while ((k = sc.config.find("  expandBoundaries on\n")) != std::string::npos) sc.config.erase(k, 22);
  }
  sc.ec.binary_state = r.chance(0.5);
  int rf = (int)r.range(2, 5);
  sc.ec.restart_freq = rf;
  if (r.chance(0.4)) sc.ec.restart_prefix = "/simfs/w0/rst";
  { size_t p = sc.config.find("colvarsRestartFrequency 0\n"); if (p != std::string::npos) sc.config.erase(p, 26); }
  J sj = sc.to_json();
  sj["mode"] = mode;
  sj["chunk"] = (long long)(r.chance(0.5) ? r.range(7, 300) : 0);
  plan["scenario"] = sj;
  if (mode == "crash") {
    long cur = 0, T = sc.T;
    int nseg = (int)r.range(1, 3);
    for (int s = 0; s < nseg; s++) {
      long n = s == nseg - 1 ? T - cur : r.range(1, std::max(1L, T - cur));
      if (n <= 0) break;
      J op = J::obj(); op["w"] = 0; op["op"] = "run"; op["n"] = (long long)n; op["end"] = r.chance(0.7) ? "graceful" : "none";
      J faults = J::arr();
      if (r.chance(0.35)) {
        J f = J::obj();
        double v = r.unit();
        if (v < 0.35) { f["k"] = "eintr"; f["call"] = r.chance(0.5) ? "access" : "rename"; f["nth"] = (long long)r.range(0, 3); f["arg"] = (long long)r.range(1, 3); }
        else if (v < 0.55) { f["k"] = "short_write"; f["call"] = "write"; f["nth"] = (long long)r.range(0, 6); f["arg"] = (long long)r.range(1, 40); }
        else if (v < 0.8) { f["k"] = "enospc"; f["call"] = "write"; f["suffix"] = ".colvars.state"; f["nth"] = (long long)r.range(0, 4); }
        else { f["k"] = "eio"; f["call"] = "rename"; f["nth"] = (long long)r.range(0, 2); }
        faults.push(f);
      }
      if (faults.size()) op["faults"] = faults;
      ops.push(op);
      cur += n;
    }
  } else {
    J op = J::obj(); op["w"] = 0; op["op"] = "run"; op["n"] = (long long)sc.T; op["end"] = "graceful";
    ops.push(op);
    int nd = (int)r.range(3, thorough ? 40 : 16);
    for (int i = 0; i < nd; i++) {
      J d = J::obj(); d["w"] = 0; d["op"] = "damage";
      double v = r.unit();
      if (v < 0.3) { d["kind"] = "truncate"; d["at"] = r.unit(); }
      else if (v < 0.55) { d["kind"] = "truncate_brace"; d["index"] = (long long)r.range(0, 40); d["delta"] = (long long)r.range(-3, 3); }
      else if (v < 0.8) { d["kind"] = "flip"; d["n"] = (long long)r.range(1, 4); d["at"] = r.unit(); d["bit"] = (long long)r.range(0, 7); d["vs"] = (long long)(r.next() >> 20); }
      else if (v < 0.9) { d["kind"] = "remove"; d["at"] = r.unit(); d["len"] = (long long)r.range(1, 200); }
      else { d["kind"] = "dup"; d["at"] = r.unit(); d["len"] = (long long)r.range(1, 200); }
      ops.push(d);
    }
  }
  plan["ops"] = ops;
  return plan;
}

int fs_call_id(std::string const &s) {
  for (int k = 0; k < FS_NKINDS; k++) if (s == fs_kind_names[k]) return k;
  return -1;
}
int fs_fault_id(std::string const &s) {
  for (int k = 0; k < FF_NKINDS; k++) if (s == fs_fault_names[k]) return k;
  return -1;
}
std::vector<FsFault> faults_from(J const &op) {
  std::vector<FsFault> v;
  for (auto const &f : op.at("faults").a) {
    FsFault x;
    x.kind = fs_fault_id(f.at("k").as_str()); if (x.kind < 0) continue;
    x.call = fs_call_id(f.at("call").as_str()); x.suffix = f.at("suffix").as_str();
    x.nth = (int)f.at("nth").as_int(); x.arg = (long)f.at("arg").as_int(1);
    v.push_back(x);
  }
  return v;
}

// ---------------------------------------------------------------- crash mode
struct Completed { size_t jindex; std::string text; long step; };

// try to recover from an image: returns "" if a complete state equal to a reference was recovered
std::string try_recover(EngineCfg const &ec, std::string const &config, FsImage const &img, std::vector<std::string> const &prefixes,
                        std::vector<Completed> const &refs, RunResult &res) {
  std::string why;
  for (auto const &prefix : prefixes) {
    for (int alt = 0; alt < 2; alt++) {
      std::string path = prefix + ".colvars.state" + (alt ? ".old" : "");
      auto it = img.find(path);
      if (it == img.end()) { why += path + ":absent; "; continue; }
      fs().reset(); fs().active = true;
      fs().restore(img);
      // .old is offered to the library under the regular name, as a user would do
      std::string load_prefix = prefix;
      if (alt) { fs().put(prefix + ".recover.colvars.state", it->second); load_prefix = prefix + ".recover"; }
      std::unique_ptr<Engine> e(new Engine(ec));
      e->configure(config);
      cvm::clear_error();
      int err = e->load_state(load_prefix);
      res.counters["recoveries"]++;
      if (err != COLVARS_OK || cvm::get_error()) { why += path + ":load_error; "; continue; }
      std::string txt = e->save_state_string();
      bool match = false;
      for (auto const &c : refs) {
        // (with rebinGrids the grids are recomputed from the kept hills on load: same numbers, another summation order - as in C03)
        bool rebinned = config.find("rebinGrids on") != std::string::npos;
        StateDiff d = compare_state_text(c.text, txt, rebinned ? 1e-8 : 1e-10, rebinned ? 1e-12 : 1e-300);
        if (d.same) { match = true; break; }
      }
      if (match) return "";
      why += path + ":loads_but_matches_no_completed_state; ";
    }
  }
  return why;
}

// how a failed state write showed up in the library (set by run_crash, appended to the features of a violation): the recorded finding
// C11-FAILED-WRITE-ROTATED needs the failure to surface when the stream is closed
std::string g_write_failure_features;

void run_crash(J const &plan, RunResult &res, SimRun &sim) {
  g_write_failure_features.clear();
  EngineCfg ec; std::string config; long T;
  scenario_from_json(plan.at("scenario"), ec, config, T);
  fs().set_chunk(0, (size_t)plan.at("scenario").at("chunk").as_int(0));
  std::string outp = "/simfs/w0/out";
  std::vector<std::string> prefixes = {outp};
  if (!ec.restart_prefix.empty()) prefixes.push_back(ec.restart_prefix);
  std::vector<Completed> refs;
  std::map<std::string, std::string> last_content;
  // the replica state file of a multiple-walker metadynamics bias (<prefix>.colvars.<bias>.<replica>.state): every content it held at the
  // end of a step, and whether an I/O error was injected (after one the library's behaviour is the subject of the recorded findings)
  auto is_replica_state = [](std::string const &path) { return path.size() > 9 && path.compare(path.size() - 9, 9, ".w0.state") == 0 && path.find(".colvars.") != std::string::npos; };
  std::set<std::string> replica_contents; bool hard_fault_seen = false;
  uint64_t fp = 1469598103934665603ULL;
  std::string kinds;
  {
    std::unique_ptr<Engine> e(new Engine(ec));
    if (e->configure(config) != COLVARS_OK || cvm::get_error()) { res.counters["probe.invalid_config"]++; return; }
    fs().journal_start();
    e->record = true;
    auto note_completion = [&](bool clean) {
      if (!clean) hard_fault_seen = true;
      for (auto const &path : fs().list("/simfs/")) if (is_replica_state(path)) { std::string c; if (fs().get(path, c)) replica_contents.insert(c); }
      for (auto const &p : prefixes) {
        std::string c, path = p + ".colvars.state";
        if (!fs().get(path, c)) continue;
        if (last_content[path] == c) continue;
        last_content[path] = c;
        if (!clean) continue;   // a write that reported an error is not a completed state
        Completed k; k.jindex = fs().journal().size(); k.text = e->save_state_string(); k.step = (long)cvm::step_absolute();
        refs.push_back(k);
      }
    };
    for (auto const &op : plan.at("ops").a) {
      if (op.at("op").as_str() != "run") continue;
      long n = (long)op.at("n").as_int(1);
      std::vector<FsFault> fl = faults_from(op);
      fs().arm_faults(0, fl);
      kinds += "r";
      for (auto &f : fl) kinds += std::string(":") + fs_fault_names[f.kind];
      e->after_step = [&](long) {
        bool hard_fault = false;
        std::vector<FsFault> cur = fs().disarm_faults(0);
        for (auto &f : cur) if (f.fired && (f.kind == FF_ENOSPC || f.kind == FF_EIO)) hard_fault = true;
        fs().arm_faults_keep(0, cur);
        note_completion(!cvm::get_error() && !hard_fault);
        cvm::clear_error();
      };
      cvm::clear_error();
      e->run((int)n, false);
      e->after_step = nullptr;
      if (op.at("end").as_str() == "graceful") {
        cvm::clear_error();
        e->end_run();
        note_completion(!cvm::get_error());
      }
      fs().disarm_faults(0);
    }
    fs().journal_stop();
    add_steps(res, *e);
    fp = hash_recs(e->rec, fp);
    {
      bool at_close = false, before_close = false;
      auto scan = [&](std::deque<std::string> const &lines) { for (auto const &l : lines) { if (l.find("in writing to and closing file") != std::string::npos) at_close = true; if (l.find("in writing restart file") != std::string::npos || l.find("in writing binary state") != std::string::npos) before_close = true; } };
      scan(e->error_lines); scan(e->log_lines);
      // (a failure while the state is being written also shows when that stream is closed: the earlier symptom names the case)
      if (before_close) g_write_failure_features += "+write_failed_before_close";
      else if (at_close) g_write_failure_features += "+write_failed_at_close";
    }
  }
  res.fingerprint = fp;
  // replica state file: after the rename that first puts it in place, every crash image holds one of the complete contents
  if (!replica_contents.empty() && !hard_fault_seen) {
    FS snap = fs(); std::vector<FsMutation> const &jq = snap.journal();
    size_t first_rep = jq.size(); std::string rpath;
    for (size_t i = 0; i < jq.size(); i++) if (jq[i].k == FsMutation::RENAME && is_replica_state(jq[i].path2)) { first_rep = i + 1; rpath = jq[i].path2; break; }
    std::set<uint64_t> seen; long rimages = 0;
    for (size_t i = first_rep; i <= jq.size() && !res.violation && !rpath.empty(); i++) {
      // the file can only change at calls on it or on the temporary file that is renamed over it
      auto touches = [&](size_t q) { return q < jq.size() && (jq[q].path.find(".w0.state") != std::string::npos || jq[q].path2.find(".w0.state") != std::string::npos); };
      if (!touches(i) && !(i > 0 && touches(i - 1))) continue;
      std::vector<size_t> partials = {0};
      if (i < jq.size() && jq[i].k == FsMutation::WRITE && jq[i].data.size() > 1) { partials.push_back(1); partials.push_back(jq[i].data.size() - 1); }
      for (size_t part : partials) {
        FsImage img = snap.image_at(i, part);
        auto it = img.find(rpath);
        uint64_t h = it == img.end() ? 0xdeadULL : fnv_str(it->second, 99);
        if (seen.count(h)) continue;
        seen.insert(h); rimages++;
        if (it != img.end() && replica_contents.count(it->second)) continue;
        std::string between = i < jq.size() ? std::string(fs_kind_names[jq[i].call_kind]) : "end";
        std::string prev = i > 0 ? std::string(fs_kind_names[jq[i - 1].call_kind]) : "start";
        res.fail("crash_image", "replica_state_" + std::string(it == img.end() ? "absent" : "incomplete") + "/after:" + prev + ",before:" + between + (part ? "(partial)" : ""),
                 "journal index " + std::to_string(i) + " partial " + std::to_string(part) + ": " + rpath + (it == img.end() ? " does not exist" : " holds " + std::to_string(it->second.size()) + " bytes that are none of the states this walker completed"));
      }
    }
    res.counters["probe.replica_state_images_distinct"] += rimages;
  }
  if (refs.empty()) { res.counters["probe.no_completed_state"]++; return; }
  // keep the journal and base: FS::image_at works on the captured journal even after reset of files
  FS snapshot_fs = fs();   // copy (journal + base inside)
  std::vector<FsMutation> const &jr = snapshot_fs.journal();
  size_t first = refs.front().jindex;
  std::set<uint64_t> seen_images;
  size_t boundaries = 0, images = 0; long sampled_out = 0;
  Rng pr((uint64_t)plan.at("seed").as_int(), 1111);
  auto relevant_hash = [&](FsImage const &img) {
    uint64_t h = 1469598103934665603ULL;
    for (auto const &p : prefixes)
      for (int alt = 0; alt < 2; alt++) {
        std::string path = p + ".colvars.state" + (alt ? ".old" : "");
        auto it = img.find(path);
        h = fnv_str(path, h);
        if (it == img.end()) h = fnv_u64(0xdead, h); else h = fnv_str(it->second, h);
      }
    return h;
  };
  // a plan that writes tens of megabytes (a kept-hills state over a fine two-dimensional grid, unbuffered) would cost many minutes: each
  // image is rebuilt from the journal and loaded by a fresh instance.  Beyond 8 MB of journalled writes only every (16 x stride)-th boundary
  // between two writes is examined, without partial writes; all boundaries next to an open, rename, remove or close are kept.
  size_t journal_bytes = 0; for (auto const &mq : jr) if (mq.k == FsMutation::WRITE) journal_bytes += mq.data.size();
  size_t const stride = 1 + journal_bytes / (8u << 20);
  for (size_t i = first; i <= jr.size() && !res.violation; i++) {
    if (stride > 1 && i > 0 && i < jr.size() && jr[i].k == FsMutation::WRITE && jr[i - 1].k == FsMutation::WRITE && (i % (stride * 16)) != 0) { sampled_out++; continue; }
    std::vector<size_t> partials = {0};
    if (stride == 1 && i < jr.size() && jr[i].k == FsMutation::WRITE && jr[i].data.size() > 1) {
      size_t L = jr[i].data.size();
      partials.push_back(1); partials.push_back(L / 2); partials.push_back(L - 1);
      partials.push_back(1 + (size_t)pr.below(L - 1));
    }
    for (size_t part : partials) {
      boundaries++;
      FsImage img = snapshot_fs.image_at(i, part);
      uint64_t h = relevant_hash(img);
      if (seen_images.count(h)) continue;
      seen_images.insert(h);
      images++;
      // each image costs a fresh instance (~12 ms): past 1500 distinct images the rest of this plan's boundaries are sampled 1 in 8
      // (such plans chop their writes into tiny chunks; without the cap one of them takes a minute)
      if (images > 1500 && pr.below(8) != 0) { sampled_out++; continue; }
      // only references completed at or before this instant count
      std::vector<Completed> avail;
      for (auto const &c : refs) if (c.jindex <= i) avail.push_back(c);
      // (a file that loads and equals ANY state this run completed is a complete state: the one being written counts from the moment its
      //  last byte is on disk, although the run only notes its completion at the end of the step)
      (void)avail;
      std::string why = try_recover(ec, config, img, prefixes, refs, res);
      if (!why.empty()) {
        std::string between = i < jr.size() ? std::string(fs_kind_names[jr[i].call_kind]) : "end";
        std::string prev = i > 0 ? std::string(fs_kind_names[jr[i - 1].call_kind]) : "start";
        res.fail("crash_image", "no_recoverable_state/after:" + prev + ",before:" + between + (part ? "(partial)" : ""),
                 "journal index " + std::to_string(i) + " partial " + std::to_string(part) + ": " + why);
      }
    }
  }
  res.counters["probe.crash_boundaries"] += (long long)boundaries;
  res.counters["probe.crash_images_distinct"] += (long long)images;
  res.counters["probe.crash_images_not_loaded_beyond_cap"] += sampled_out;
  res.counters["probe.completed_states"] += (long long)refs.size();
  res.nontrivial = images > 1;
  res.class_hash = fnv_str(kinds, fnv_str(plan.at("scenario").at("template").as_str(), fnv_u64(ec.binary_state, fnv_u64(images, 11))));
  (void)sim;
}

// ---------------------------------------------------------------- damage mode
std::vector<size_t> brace_positions(std::string const &s) {
  std::vector<size_t> v;
  for (size_t i = 0; i < s.size(); i++) if (s[i] == '{' || s[i] == '}') v.push_back(i);
  return v;
}
int depth_at(std::string const &s, size_t cut) {
  int d = 0;
  for (size_t i = 0; i < cut && i < s.size(); i++) { if (s[i] == '{') d++; else if (s[i] == '}') d--; }
  return d;
}

void run_damage(J const &plan, RunResult &res, SimRun &sim) {
  EngineCfg ec; std::string config; long T;
  scenario_from_json(plan.at("scenario"), ec, config, T);
  std::string state;
  uint64_t fp = 1469598103934665603ULL;
  {
    std::unique_ptr<Engine> e(new Engine(ec));
    if (e->configure(config) != COLVARS_OK || cvm::get_error()) { res.counters["probe.invalid_config"]++; return; }
    e->run((int)T, true);
    add_steps(res, *e);
    fp = hash_recs(e->rec, fp);
    if (!fs().get("/simfs/w0/out.colvars.state", state)) { res.counters["probe.no_state"]++; return; }
  }
  res.fingerprint = fp;
  bool binary = ec.binary_state;
  std::vector<size_t> braces = binary ? std::vector<size_t>() : brace_positions(state);
  size_t n_objects = 0;
  { size_t p = 0; while ((p = config.find("\n}", p)) != std::string::npos) { n_objects++; p += 2; } }
  std::string kinds;
  size_t accepted_binary_cuts = 0, binary_cuts = 0;
  for (auto const &op : plan.at("ops").a) {
    if (res.violation) break;
    if (op.at("op").as_str() != "damage") continue;
    std::string kind = op.at("kind").as_str();
    std::string d = state;
    bool must_error = false;
    size_t N = state.size();
    if (N < 8) break;
    if (kind == "truncate" || kind == "truncate_brace") {
      size_t cut;
      if (kind == "truncate_brace" && !braces.empty()) {
        size_t b = braces[(size_t)op.at("index").as_int() % braces.size()];
        long c = (long)b + (long)op.at("delta").as_int();
        cut = (size_t)std::max(0L, std::min((long)N - 1, c));
      } else cut = (size_t)(op.at("at").as_num() * (double)(N - 1));
      d.resize(cut);
      if (!binary) {
        // the statement is about objects' blocks: the leading global "configuration { }" block is not one
        size_t conf_end = state.find('}');
        must_error = depth_at(state, cut) > 0 && conf_end != std::string::npos && cut > conf_end;
      }
      else { binary_cuts++; }
      res.counters["fault.truncate"]++;
    } else if (kind == "flip") {
      Rng fr((uint64_t)op.at("vs").as_int(), 5);
      int n = (int)op.at("n").as_int(1);
      for (int q = 0; q < n; q++) { size_t at = q == 0 ? (size_t)(op.at("at").as_num() * (double)(N - 1)) : (size_t)fr.below(N); d[at] = (char)(d[at] ^ (1 << ((op.at("bit").as_int() + q) % 8))); }
      res.counters["fault.bit_flip"]++;
    } else if (kind == "remove") {
      size_t at = (size_t)(op.at("at").as_num() * (double)(N - 1)); size_t len = std::min((size_t)op.at("len").as_int(1), N - at);
      d.erase(at, len);
      res.counters["fault.remove_range"]++;
    } else if (kind == "dup") {
      size_t at = (size_t)(op.at("at").as_num() * (double)(N - 1)); size_t len = std::min((size_t)op.at("len").as_int(1), N - at);
      d.insert(at, state.substr(at, len));
      res.counters["fault.dup_range"]++;
    } else continue;
    kinds += kind[0];
    fs().reset(); fs().active = true;
    fs().put("/simfs/w0/dmg.colvars.state", d);
    std::unique_ptr<Engine> e(new Engine(ec));
    e->configure(config);
    cvm::clear_error();
    int err = e->load_state("/simfs/w0/dmg");
    bool errored = err != COLVARS_OK || cvm::get_error();
    res.counters[errored ? "probe.damaged_rejected" : "probe.damaged_accepted"]++;
    fp = fnv_u64(errored, fp);
    if (must_error && !errored) {
      res.fail("damaged_state", "cut_inside_block_accepted/" + std::string(binary ? "binary" : "text"),
               "text state of " + std::to_string(N) + " bytes cut at " + std::to_string(d.size()) + " (brace depth " + std::to_string(depth_at(state, d.size())) + ") loaded without error");
      break;
    }
    if (binary && (kind == "truncate" || kind == "truncate_brace") && !errored && d.size() > 4) accepted_binary_cuts++;
    if (!errored) {
      // accepted: the module must remain usable
      cvm::clear_error();
      e->run(3, false);
      add_steps(res, *e);
    }
  }
  if (!res.violation && binary && accepted_binary_cuts > n_objects + 2) {
    res.fail("damaged_state", "cut_inside_block_accepted/binary",
             std::to_string(accepted_binary_cuts) + " of " + std::to_string(binary_cuts) + " truncations of a binary state with " + std::to_string(n_objects) + " objects were accepted");
  }
  res.fingerprint = fp;
  res.nontrivial = kinds.size() > 0;
  res.class_hash = fnv_str(kinds, fnv_str(plan.at("scenario").at("template").as_str(), fnv_u64(binary, 12)));
  (void)sim;
}

// ---------------------------------------------------------------- stream mode
struct Pair16 { double a, b; };

struct Item {
  std::string t; size_t len; uint64_t vs;
};

template <class T> std::vector<T> make_vec(Rng &r, size_t n) {
  std::vector<T> v(n);
  unsigned char *p = reinterpret_cast<unsigned char *>(v.data());
  for (size_t i = 0; i < n * sizeof(T); i++) p[i] = (unsigned char)(1 + r.below(250));
  return v;
}
template <> std::vector<double> make_vec<double>(Rng &r, size_t n) { std::vector<double> v(n); for (auto &x : v) x = r.uniform(-1e3, 1e3); return v; }
template <> std::vector<Pair16> make_vec<Pair16>(Rng &r, size_t n) { std::vector<Pair16> v(n); for (auto &x : v) { x.a = r.uniform(-5, 5); x.b = r.uniform(-5, 5); } return v; }
template <> std::vector<cvm::rvector> make_vec<cvm::rvector>(Rng &r, size_t n) { std::vector<cvm::rvector> v(n); for (auto &x : v) x = cvm::rvector(r.uniform(-5, 5), r.uniform(-5, 5), r.uniform(-5, 5)); return v; }

colvarvalue make_cv(std::string const &t, Rng &r, size_t len) {
  if (t == "cv_scalar") { colvarvalue v(colvarvalue::type_scalar); v.real_value = r.uniform(-10, 10); return v; }
  if (t == "cv_3vector") { colvarvalue v(colvarvalue::type_3vector); v.rvector_value = cvm::rvector(r.uniform(-1, 1), r.uniform(-1, 1), r.uniform(-1, 1)); return v; }
  // unit vectors and quaternions are normalised when read: write valid (normalised) values
  if (t == "cv_unit3vector") { colvarvalue v(colvarvalue::type_unit3vector); v.rvector_value = cvm::rvector(r.uniform(-1, 1), r.uniform(-1, 1), r.uniform(0.1, 1)); v.apply_constraints(); return v; }
  if (t == "cv_quaternion") { colvarvalue v(colvarvalue::type_quaternion); v.quaternion_value = cvm::quaternion(r.uniform(0.1, 1), r.uniform(-1, 1), r.uniform(-1, 1), r.uniform(-1, 1)); v.apply_constraints(); return v; }
  colvarvalue v(colvarvalue::type_vector);
  v.vector1d_value.resize(len);
  for (size_t i = 0; i < len; i++) v.vector1d_value[i] = r.uniform(-3, 3);
  return v;
}

// write item k; returns false on unknown type
bool put_item(cvm::memory_stream &os, Item const &it) {
  Rng r(it.vs, 3);
  if (it.t == "size_t") { size_t v = (size_t)r.next(); os << v; }
  else if (it.t == "int") { int v = (int)r.next(); os << v; }
  else if (it.t == "bool") { bool v = r.chance(0.5); os << v; }
  else if (it.t == "double") { double v = r.uniform(-1e6, 1e6); os << v; }
  else if (it.t == "string") { std::string s; for (size_t i = 0; i < it.len * 3; i++) s += (char)('a' + r.below(26)); os << s; }
  else if (it.t.compare(0, 3, "cv_") == 0) { colvarvalue v = make_cv(it.t, r, it.len); os << v; }
  else if (it.t == "vector1d") { cvm::vector1d<cvm::real> v(it.len); for (size_t i = 0; i < it.len; i++) v[i] = r.uniform(-3, 3); os << v; }
  else if (it.t == "vec_char") { os << make_vec<char>(r, it.len); }
  else if (it.t == "vec_int") { os << make_vec<int>(r, it.len); }
  else if (it.t == "vec_double") { os << make_vec<double>(r, it.len); }
  else if (it.t == "vec_pair16") { os << make_vec<Pair16>(r, it.len); }
  else if (it.t == "vec_rvector") { os << make_vec<cvm::rvector>(r, it.len); }
  else if (it.t == "vec_size_t") { os << make_vec<size_t>(r, it.len); }
  else return false;
  return true;
}

template <class T> bool same_bytes(std::vector<T> const &a, std::vector<T> const &b) {
  return a.size() == b.size() && (a.empty() || memcmp(a.data(), b.data(), a.size() * sizeof(T)) == 0);
}

// read item back and compare with what put_item wrote; 0 ok, 1 stream failed, 2 wrong data
int get_item(cvm::memory_stream &is, Item const &it) {
  Rng r(it.vs, 3);
  if (it.t == "size_t") { size_t e = (size_t)r.next(), v = 0; is >> v; if (!is) return 1; return v == e ? 0 : 2; }
  if (it.t == "int") { int e = (int)r.next(), v = 0; is >> v; if (!is) return 1; return v == e ? 0 : 2; }
  if (it.t == "bool") { bool e = r.chance(0.5), v = !e; is >> v; if (!is) return 1; return v == e ? 0 : 2; }
  if (it.t == "double") { double e = r.uniform(-1e6, 1e6), v = 0; is >> v; if (!is) return 1; return v == e ? 0 : 2; }
  if (it.t == "string") { std::string e, v; for (size_t i = 0; i < it.len * 3; i++) e += (char)('a' + r.below(26)); is >> v; if (!is) return 1; return v == e ? 0 : 2; }
  if (it.t.compare(0, 3, "cv_") == 0) {
    colvarvalue e = make_cv(it.t, r, it.len), v(e.type());
    if (e.type() == colvarvalue::type_vector) v.vector1d_value.resize(it.len);
    is >> v; if (!is) return 1;
    cvm::vector1d<cvm::real> a = e.as_vector(), b = v.as_vector();
    if (a.size() != b.size()) return 2;
    bool renorm = e.type() == colvarvalue::type_unit3vector || e.type() == colvarvalue::type_quaternion;
    for (size_t i = 0; i < a.size(); i++) if (renorm ? std::fabs(a[i] - b[i]) > 4e-16 : a[i] != b[i]) return 2;
    return 0;
  }
  if (it.t == "vector1d") { cvm::vector1d<cvm::real> e(it.len), v; for (size_t i = 0; i < it.len; i++) e[i] = r.uniform(-3, 3); is >> v; if (!is) return 1; if (v.size() != e.size()) return 2; for (size_t i = 0; i < e.size(); i++) if (v[i] != e[i]) return 2; return 0; }
#define VEC(T) { std::vector<T> e = make_vec<T>(r, it.len), v; is >> v; if (!is) return 1; return same_bytes(e, v) ? 0 : 2; }
  if (it.t == "vec_char") VEC(char)
  if (it.t == "vec_int") VEC(int)
  if (it.t == "vec_double") VEC(double)
  if (it.t == "vec_pair16") VEC(Pair16)
  if (it.t == "vec_rvector") VEC(cvm::rvector)
  if (it.t == "vec_size_t") VEC(size_t)
#undef VEC
  return 1;
}

void run_stream(J const &plan, RunResult &res, SimRun &sim) {
  EngineCfg ec; ec.natoms = 4;
  std::unique_ptr<Engine> e(new Engine(ec));
  std::vector<Item> items;
  std::string kinds;
  for (auto const &op : plan.at("ops").a) {
    if (op.at("op").as_str() != "put") continue;
    items.push_back(Item{op.at("t").as_str(), (size_t)op.at("len").as_int(), (uint64_t)op.at("vs").as_int()});
    kinds += op.at("t").as_str() + std::to_string(op.at("len").as_int()) + ",";
  }
  cvm::memory_stream os;
  for (auto const &it : items) put_item(os, it);
  size_t L = os.length();
  std::vector<unsigned char> buf(os.output_buffer(), os.output_buffer() + L);
  uint64_t fp = fnv1a(buf.data(), buf.size());
  // full read-back
  {
    cvm::memory_stream is(buf.size(), buf.data());
    for (size_t k = 0; k < items.size(); k++) {
      int rc = get_item(is, items[k]);
      if (rc != 0) {
        res.fail("binary_stream", "roundtrip/" + items[k].t + (k ? "/after_" + items[k - 1].t : ""),
                 "item " + std::to_string(k) + " (" + items[k].t + " len " + std::to_string(items[k].len) + ") " + (rc == 1 ? "could not be read back" : "read back different data"));
        break;
      }
    }
    if (!res.violation && is.tellg() != L) res.fail("binary_stream", "roundtrip/length", "read " + std::to_string(is.tellg()) + " of " + std::to_string(L) + " bytes");
  }
  // truncated at every byte: items fully contained must read correctly, the first cut one must fail
  for (size_t cut = 0; cut < L && !res.violation; cut++) {
    std::vector<unsigned char> tb(buf.begin(), buf.begin() + (long)cut);
    tb.shrink_to_fit();   // so that ASan sees any read past the end
    cvm::memory_stream is(tb.size(), tb.data());
    res.counters["fault.truncate"]++;
    for (size_t k = 0; k < items.size(); k++) {
      size_t before = is.tellg();
      int rc = get_item(is, items[k]);
      if (rc == 2) { res.fail("binary_stream", "truncated/wrong_data/" + items[k].t, "cut " + std::to_string(cut) + " item " + std::to_string(k)); break; }
      if (rc == 1) { if (is.tellg() > cut) res.fail("binary_stream", "truncated/read_past_end/" + items[k].t, "cut " + std::to_string(cut)); break; }
      if (is.tellg() > cut) { res.fail("binary_stream", "truncated/read_past_end/" + items[k].t, "cut " + std::to_string(cut) + " pos " + std::to_string(is.tellg())); break; }
      (void)before;
    }
  }
  // damaged length prefixes: flip high bits in the first 8 bytes of each vector/string item
  {
    cvm::memory_stream probe(buf.size(), buf.data());
    for (size_t k = 0; k < items.size() && !res.violation; k++) {
      size_t start = probe.tellg();
      if (get_item(probe, items[k]) != 0) break;
      if (items[k].t.compare(0, 4, "vec_") != 0 && items[k].t != "string" && items[k].t != "vector1d" && items[k].t != "cv_vector") continue;
      for (int bit : {63, 62, 61, 40, 33}) {
        std::vector<unsigned char> db(buf);
        size_t off = start;
        if (off + 8 > db.size()) continue;
        db[off + (size_t)bit / 8] ^= (unsigned char)(1u << (bit % 8));
        cvm::memory_stream is(db.size(), db.data());
        is.seekg(start);
        res.counters["fault.length_prefix_flip"]++;
        get_item(is, items[k]);   // must return (oracle: no crash, no huge allocation)
        if (is.tellg() > db.size()) res.fail("binary_stream", "damaged_length/read_past_end/" + items[k].t, "bit " + std::to_string(bit));
      }
    }
  }
  res.fingerprint = fp;
  res.nontrivial = items.size() > 1;
  res.class_hash = fnv_str(kinds, 13);
  res.counters["probe.stream_items"] += (long long)items.size();
  (void)sim;
}

RunResult run(J const &plan) {
  RunResult res;
  SimRun sim(1);
  std::string mode = plan.at("scenario").at("mode").as_str();
  if (mode == "crash") run_crash(plan, res, sim);
  else if (mode == "damage") run_damage(plan, res, sim);
  else run_stream(plan, res, sim);
  res.counters["probe.mode_" + mode]++;
  std::string fk;
  for (auto const &op : plan.at("ops").a) for (auto const &f : op.at("faults").a) fk += "+fault_" + f.at("k").as_str();
  if (res.violation) res.features = mode + fk + (plan.at("scenario").has("config") ? "+" + config_features(plan.at("scenario").at("config").as_str()) : "") +
                                    (plan.at("scenario").at("engine").at("binary_state").as_bool() ? "+binary" : "") + (mode == "crash" ? g_write_failure_features : std::string());
  sim.finish(res);
  return res;
}

void shrink_more(J const &plan, std::vector<J> &out) {
  if (plan.at("scenario").has("config")) shrink_scenario_config(plan, out);
  // stream items: shrink lengths
  J const &ops = plan.at("ops");
  for (size_t i = 0; i < ops.size(); i++) {
    long len = (long)ops.a[i].at("len").as_int(-1);
    if (ops.a[i].at("op").as_str() == "put" && len > 1) { J c = plan; c["ops"].a[i]["len"] = J(1); out.push_back(std::move(c)); }
  }
  if (plan.at("scenario").at("chunk").as_int(0) != 0) { J c = plan; c["scenario"]["chunk"] = J(0); out.push_back(std::move(c)); }
}

Property make() {
  Property p;
  p.id = "C11"; p.level = "fault_enumeration"; p.design_ref = "DESIGN.md §7 C11";
  p.rule = "three workloads. crash: a run with periodic state replacement (1-3 segments, optional EINTR/short-write/ENOSPC/EIO faults) is journalled; EVERY "
           "boundary between two file calls after the first completed state plus sampled byte offsets inside every write is turned into a disk image "
           "(distinct images by content of state/.old) and a fresh instance must recover a completed state. damage: a valid text/binary state is "
           "truncated (random offsets and +-3 around every brace), bit-flipped, has ranges removed/duplicated, then loaded. stream: sequences of "
           "memory_stream writes over all accepted types, read back whole and truncated at EVERY byte, plus flipped length prefixes. non-trivial = more "
           "than one image / damage / item; distinct = hash of (mode, template, fault kinds, damage kinds or item types)";
  p.rule += " Later additions: a quarter of the crash plans carry a multiple-walker metadynamics bias whose replica state file must hold a complete state in every crash image after its first publication; violations record whether a failed write surfaced before or at close.";
  p.assumptions = {"crash model = process death: bytes for which write() returned are durable, stream buffers are lost",
                   "a state 'equals' a completed state when its re-serialisation matches token-wise (rtol 1e-10)",
                   "binary block boundaries are not known to the harness: at most (#objects+2) truncation points of a binary state may be accepted"};
  p.real_components = {"colvarmodule::write_restart_file/setup_input/read_state", "colvarproxy_io::output_stream/backup_file/rename_file", "cvm::memory_stream", "all bias state readers", "libstdc++ filebuf"};
  p.stub_components = {"file system (sim::FS with mutation journal)", "MD engine (kinematic)"};
  p.gen = gen; p.run = run; p.shrink_more = shrink_more;
  p.quick_runs = 700; p.thorough_runs = 30000; p.quick_secs = 75; p.thorough_secs = 1200;
  p.exhaustive = false;
  return p;
}
Registrar reg(make());

}  // namespace
