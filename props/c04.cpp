// C04 — ABF stores the mean force per bin and applies its smoothed negative.
//
// Workload: an ABF bias on 1-2 variables (5 kinds; grids narrower than the range visited so that
// values enter and leave; fullSamples / minSamples / maxForce / applyBias / hideJacobian drawn per
// run), optionally next to a harmonic restraint or harmonic walls on the same variables, with or
// without subtractAppliedForce, under both conventions for total forces (same step; one step
// late, containing Colvars' own forces of the previous step), in several run segments.
// Reference model: a dictionary of bins with a count and a sum.  Each eligible step it attributes
// the total force the variable reports (minus the ABF force applied when that force acted, unless
// the variable already subtracts applied forces or forces are from the current step) to the bin
// occupied at the step the force acted, and predicts the applied force: minus the mean for the
// current bin, scaled by the ramp between minSamples and fullSamples, made zero-mean for one
// periodic variable, capped by maxForce, zero outside the grid or with applyBias off.
// Oracle, after every step: every bin's count and accumulated gradient equal the model's
// (counts exactly, sums at 1e-10), and the force ABF puts on each variable equals the prediction.
#include "simrun.h"
#include "scenario.h"

#include "colvarbias_abf.h"

#include <cmath>
#include <memory>
#include <set>

using namespace sim;

namespace {

J gen(uint64_t seed, bool thorough) {
  Rng r(seed, 4);
  EngineCfg ec;
  ec.natoms = (int)r.range(10, 16);
  ec.data_seed = r.next() >> 12; ec.noise_seed = r.next() >> 12;
  ec.dt = 1.0; ec.temperature = r.chance(0.5) ? 300.0 : 0.0; ec.forces_late = r.chance(0.5);
  ec.traj_amp = r.uniform(0.4, 1.2);
  TrajModel m; m.build(ec.data_seed, ec.natoms, ec.traj_amp, ec.force_amp, false);
  long T = thorough ? 150 : 80;
  J plan = J::obj();
  plan["v"] = 1; plan["property"] = "C04"; plan["seed"] = (long long)seed;
  J sc = J::obj();
  J e = J::obj(); ec.to_json(e); sc["engine"] = e;
  sc["config"] = global_config(1, 0, false);
  sc["T"] = (long long)T;
  static const char *kinds[] = {"distance", "distanceZ", "dihedral", "angle", "distanceXY"};
  int ncv = r.chance(0.65) ? 1 : 2;
  std::string cvtext, names, sig; J jcv = J::arr();
  std::vector<CvSpec> cvs; std::vector<std::pair<double, double>> ranges;
  for (int i = 0; i < ncv; i++) {
    CvSpec c = make_cv(r, ec.natoms, kinds[r.below(5)], "v" + std::to_string(i));
    place_grid(c, m, T, r, (int)r.range(3, 9), r.uniform(0.5, 1.3));   // often narrower than the visited range
    c.width = strtod(num(c.width).c_str(), nullptr); c.lower = strtod(num(c.lower).c_str(), nullptr); c.upper = strtod(num(c.upper).c_str(), nullptr);
    double lo, hi; cv_range(c, m, T, lo, hi);
    bool sub = r.chance(0.5);
    if (sub) c.extra += "  subtractAppliedForce on\n";
    cvs.push_back(c); ranges.push_back({lo, hi}); cvtext += c.config(); names += (i ? " " : "") + c.name;
    J o = J::obj(); o["name"] = c.name; o["periodic"] = c.periodic(); o["width"] = c.width; o["lower"] = c.lower; o["upper"] = c.upper; o["sub"] = sub; jcv.push(o);
    sig += c.kind.substr(0, 4) + (sub ? "s" : "") + "+";
  }
  long full = r.range(1, 20), mins = r.range(0, full - 1);
  bool cap = r.chance(0.4), apply = !r.chance(0.15), hidej = r.chance(0.3);
  std::string abf = "abf {\n  name abf\n  colvars " + names + "\n  fullSamples " + std::to_string(full) + "\n  minSamples " + std::to_string(mins) + "\n";
  std::vector<double> maxf;
  if (cap) { abf += "  maxForce"; for (int i = 0; i < ncv; i++) { bool angular = cvs[(size_t)i].kind == "dihedral" || cvs[(size_t)i].kind == "angle";   // (forces per degree are a hundred times smaller than forces per length: the cap must be able to bind)
      double mf = angular ? std::round(r.uniform(0.001, 0.06) * 100000) / 100000 : std::round(r.uniform(0.05, 3.0) * 1000) / 1000; maxf.push_back(mf); abf += " " + num(mf); } abf += "\n"; }
  if (!apply) abf += "  applyBias off\n";
  if (hidej) abf += "  hideJacobian on\n";
  abf += "}\n";
  std::string other;
  double u = r.unit();
  if (u < 0.3) other = make_bias("harm_fixed", r, cvs, ranges, T, "h").config;
  else if (u < 0.5) { bool per = false; for (auto &c : cvs) per = per || c.periodic(); if (!per) other = make_bias("walls_fixed", r, cvs, ranges, T, "h").config; }
  sc["cvs"] = cvtext; sc["abf"] = abf; sc["other"] = other; sc["cvinfo"] = jcv;
  J ja = J::obj(); ja["full"] = (long long)full; ja["min"] = (long long)mins; ja["cap"] = cap; ja["apply"] = apply; J jm = J::arr(); for (double v : maxf) jm.push(v); ja["maxf"] = jm;
  sc["abfinfo"] = ja;
  sig += std::string(ec.forces_late ? "late" : "same") + (cap ? "/cap" : "") + (apply ? "" : "/noapply") + (hidej ? "/hideJ" : "") + (other.empty() ? "" : "/other") + "/";
  J ops = J::arr();
  long left = T; int nseg = (int)r.range(1, 4);
  for (int s = 0; s < nseg && left > 0; s++) {
    long n = s == nseg - 1 ? left : r.range(1, std::max<long>(1, left - (nseg - 1 - s)));
    J op = J::obj(); op["w"] = 0; op["op"] = "run"; op["n"] = (long long)n; ops.push(op); left -= n; sig += "r";
  }
  sc["template"] = sig;
  plan["scenario"] = sc;
  plan["ops"] = ops;
  return plan;
}

struct Dim { bool periodic; double width, lower, upper; int n; bool sub; };

bool close_enough(double a, double b, double rtol, double atol) { return std::fabs(a - b) <= atol + rtol * std::max(std::fabs(a), std::fabs(b)); }

RunResult run(J const &plan) {
  RunResult res;
  J const &sc = plan.at("scenario");
  EngineCfg ec; std::string config; long T;
  scenario_from_json(sc, ec, config, T);
  std::vector<Dim> dims;
  for (auto const &o : sc.at("cvinfo").a) { Dim d; d.periodic = o.at("periodic").as_bool(); d.width = o.at("width").as_num(); d.lower = o.at("lower").as_num(); d.upper = o.at("upper").as_num(); d.sub = o.at("sub").as_bool(); d.n = (int)std::floor((d.upper - d.lower) / d.width + 0.5); dims.push_back(d); }
  size_t nd = dims.size();
  J const &ja = sc.at("abfinfo");
  double full = (double)ja.at("full").as_int(), mins = (double)ja.at("min").as_int(); bool cap = ja.at("cap").as_bool(), apply = ja.at("apply").as_bool();
  std::vector<double> maxf; for (auto const &v : ja.at("maxf").a) maxf.push_back(v.as_num());
  SimRun sim(1);
  std::unique_ptr<Engine> e(new Engine(ec));
  std::string conf = config + sc.at("cvs").as_str() + sc.at("abf").as_str() + sc.at("other").as_str();
  if (e->configure(conf) != COLVARS_OK || cvm::get_error()) { res.counters["probe.configuration_refused"]++; res.detail = e->last_error(); sim.finish(res); return res; }
  colvarbias_abf *abf = dynamic_cast<colvarbias_abf *>(cvm::bias_by_name("abf"));
  if (!abf) { res.counters["probe.configuration_refused"]++; sim.finish(res); return res; }
  // the model
  std::map<std::vector<int>, std::pair<long, std::vector<double>>> bins;   // count, sum of (-sample)
  std::vector<int> prev_bin; bool have_prev_bin = false;
  std::vector<double> prev_force(nd, 0.0);   // ABF force applied at the previous evaluated step
  long samples_total = 0, steps_compared = 0, out_of_grid = 0, capped = 0, ramped = 0;
  auto bin_of = [&](std::vector<double> const &x, std::vector<int> &ix) {
    ix.resize(nd); bool ok = true;
    for (size_t i = 0; i < nd; i++) {
      long b = (long)std::floor((x[i] - dims[i].lower) / dims[i].width);
      if (dims[i].periodic) { b %= dims[i].n; if (b < 0) b += dims[i].n; }
      else if (b < 0 || b >= dims[i].n) ok = false;
      ix[i] = (int)b;
    }
    return ok;
  };
  auto inv_weight = [&](double w) { if (w <= mins) return 0.0; if (w < full) return (w - mins) / (w * (full - mins)); return 1.0 / w; };
  Engine *ep = e.get();
  e->after_step = [&](long step) {
    if (res.violation) return;
    StepRec const &r = ep->rec.back();
    std::string at = "step " + std::to_string(step) + (r.continuing ? " (repeated)" : "");
    if (r.err) { res.fail("abf_model", "step_error", at + ": " + ep->last_error()); return; }
    std::vector<colvar *> &cvs = *ep->colvars->variables();
    std::vector<double> x(nd), ft(nd);
    for (size_t i = 0; i < nd; i++) { x[i] = r.cv[(size_t)r.cv_off[i]]; ft[i] = r.cv_ft[(size_t)r.cv_off[i]]; }
    std::vector<int> bin; bool in = bin_of(x, bin);
    if (!in) out_of_grid++;
    bool same = !ec.forces_late;
    // Part I: accumulate
    bool eligible = cvm::step_relative() > 0 && !r.continuing;
    if (eligible) {
      std::vector<int> fb = same ? bin : prev_bin; bool fb_ok = same ? in : (have_prev_bin && !prev_bin.empty());
      if (!same && have_prev_bin) { std::vector<double> dummy; fb_ok = true; for (size_t i = 0; i < nd; i++) if (!dims[i].periodic && (prev_bin[i] < 0 || prev_bin[i] >= dims[i].n)) fb_ok = false; }
      if (fb_ok) {
        auto &b = bins[fb]; if (b.second.empty()) b.second.assign(nd, 0.0);
        for (size_t i = 0; i < nd; i++) {
          double sample = (dims[i].sub || same) ? ft[i] : ft[i] - prev_force[i];
          b.second[i] -= sample;
        }
        b.first++; samples_total++;
      }
    }
    // raw bins (also outside the grid) are remembered for the lagged attribution
    { prev_bin.resize(nd); for (size_t i = 0; i < nd; i++) { long b = (long)std::floor((x[i] - dims[i].lower) / dims[i].width); if (dims[i].periodic) { b %= dims[i].n; if (b < 0) b += dims[i].n; } prev_bin[i] = (int)b; } have_prev_bin = true; }
    // Part II: the force
    std::vector<double> force(nd, 0.0);
    if (apply && in) {
      auto it = bins.find(bin);
      if (it != bins.end()) { double f = inv_weight((double)it->second.first); for (size_t i = 0; i < nd; i++) force[i] = f * it->second.second[i]; if (it->second.first < full && it->second.first > mins) ramped++; }
      if (nd == 1 && dims[0].periodic) {
        double sum = 0; for (auto const &kv : bins) if (kv.second.first > 0) sum += kv.second.second[0] / (double)kv.second.first;
        force[0] -= sum / (double)dims[0].n;
      }
      if (cap) for (size_t i = 0; i < nd; i++) if (force[i] * force[i] > maxf[i] * maxf[i]) { force[i] = force[i] > 0 ? maxf[i] : -maxf[i]; capped++; }
    }
    prev_force = force;
    // compare the accumulators
    colvar_grid_count *gs = colvars_verif_access::abf_samples(abf); colvar_grid_gradient *gg = colvars_verif_access::abf_gradients(abf);
    long lib_total = 0;
    for (std::vector<int> ix = gs->new_index(); gs->index_ok(ix); gs->incr(ix)) {
      long c = (long)gs->value(ix); lib_total += c;
      auto it = bins.find(ix); long mc = it == bins.end() ? 0 : it->second.first;
      if (c != mc) { std::string b; for (int q : ix) b += std::to_string(q) + " "; res.fail("abf_model", "count", at + ": bin [" + b + "] holds " + std::to_string(c) + " samples, model " + std::to_string(mc)); return; }
      for (size_t i = 0; i < nd; i++) {
        double g = gg->value(ix, i), mg = it == bins.end() ? 0.0 : it->second.second[i];
        double scale = 1e-10 * (std::fabs(mg) + (double)mc);
        if (!close_enough(g, mg, 1e-10, scale + 1e-12)) { std::string b; for (int q : ix) b += std::to_string(q) + " "; res.fail("abf_model", "gradient_sum", at + ": bin [" + b + "] component " + std::to_string(i) + " accumulates " + fmt_double(g) + ", model " + fmt_double(mg) + " (" + std::to_string(mc) + " samples)"); return; }
      }
    }
    if (lib_total != samples_total) { res.fail("abf_model", "total_count", at + ": " + std::to_string(lib_total) + " samples in the grid, " + std::to_string(samples_total) + " eligible in-range samples so far"); return; }
    // the applied force
    std::vector<colvarvalue> const &bf = colvars_verif_access::bias_forces(abf);
    // (with applyBias off nothing is handed to the variables whatever the bias keeps internally: what must hold is that the
    //  variables receive nothing from it — checked through the forces the engine receives when ABF is the only bias)
    if (!apply) {
      if (sc.at("other").as_str().empty()) for (size_t c = 0; c < r.fapp.size(); c++) if (r.fapp[c] != 0.0) { res.fail("abf_model", "applied_force/apply_off", at + ": the engine receives force component " + std::to_string(c) + " = " + fmt_double(r.fapp[c]) + " although applyBias is off and ABF is the only bias"); return; }
    } else
    for (size_t i = 0; i < nd; i++) {
      double lf = bf[i].real_value;
      if (!close_enough(lf, force[i], 1e-9, 1e-11)) { res.fail("abf_model", std::string("applied_force") + (in ? "" : "/outside_grid") + (apply ? "" : "/apply_off"), at + ": ABF puts " + fmt_double(lf) + " on " + cvs[i]->name + ", model " + fmt_double(force[i])); return; }
    }
    steps_compared++;
  };
  for (auto const &op : plan.at("ops").a) { if (res.violation) break; cvm::clear_error(); e->run((int)op.at("n").as_int(1), false); }
  add_steps(res, *e);
  sim.finish(res);
  res.counters["probe.steps_compared"] += steps_compared;
  res.counters["probe.samples_accumulated"] += samples_total;
  res.counters["probe.steps_outside_grid"] += out_of_grid; res.counters["fault.value_outside_grid"] += out_of_grid; if (ec.forces_late) res.counters["fault.lagged_force_delivery"] += steps_compared;
  res.counters["probe.forces_capped"] += capped;
  res.counters["probe.forces_on_ramp"] += ramped;
  res.nontrivial = steps_compared > 0 && samples_total > 0;
  res.class_hash = fnv_str(sc.at("template").as_str(), 4);
  res.features = std::string(ec.forces_late ? "late" : "same_step") + (nd > 1 ? "+2d" : "+1d") + (sc.at("other").as_str().empty() ? "" : "+other_bias") + (cap ? "+cap" : "") + (apply ? "" : "+apply_off");
  uint64_t fp = 1469598103934665603ULL; fp = fnv_u64((uint64_t)samples_total, fp); for (double v : prev_force) fp = fnv_dbl(v, fp);
  res.fingerprint = fnv_u64(fp, res.fingerprint);
  return res;
}

Property make() {
  Property p;
  p.id = "C04"; p.level = "exploration"; p.design_ref = "DESIGN.md §7 C04";
  p.rule = "plan = ABF on 1-2 variables (5 kinds, 3-9 bins covering 0.5-1.3 of the visited range, subtractAppliedForce on half of them), fullSamples 1-20, minSamples below it, maxForce 40%, applyBias off 15%, hideJacobian 30%, "
           "a harmonic restraint or harmonic walls on the same variables 50%, same-step or lagged total forces, temperature 0 or 300 K, 80-150 steps in 1-4 run segments; non-trivial = at least one sample accumulated; "
           "distinct = hash of (variable kinds and flags, force convention, ABF options, segmentation)";
  p.rule += " Later additions: maxForce is drawn per kind (angular variables a hundred times smaller) so that the cap binds.";
  p.assumptions = {"the model takes the variable's reported value and reported total force as given (their correctness is C02/C07) and decides attribution, eligibility, subtraction, accumulation, ramp, zero mean, cap",
                   "eligible = not the first step of a run and not a repeated step (stepZeroData off)",
                   "stop/restart of ABF is covered by C03; shared ABF by C14; eABF/CZAR and projected ABF not generated"};
  p.real_components = {"colvarbias_abf::update/update_system_force/calc_biasing_force", "colvar_grid_gradient::acc_force/vector_value_smoothed/average", "colvar_grid_count", "colvar total-force reporting as input"};
  p.stub_components = {"MD engine (kinematic, lagged or same-step force delivery)", "file system (sim::FS)"};
  p.gen = gen; p.run = run;
  p.quick_runs = 4000; p.thorough_runs = 100000; p.quick_secs = 70; p.thorough_secs = 900;
  return p;
}
Registrar reg(make());

}  // namespace
