// C17 — extended-Lagrangian coordinates follow the documented integrator.
//
// Workload: one variable with a fictitious coordinate (5 kinds, fluctuation / time constant /
// friction / reflecting boundaries / timeStepFactor drawn per run, time step 0.5-2 fs) carrying
// no bias, a harmonic or linear restraint on the fictitious coordinate, harmonic walls acting on
// the actual value (bypass), or a harmonic restraint declared to bypass it; several run segments
// (each later one repeats its first step), optionally a stop/restart through a state file, on a
// kinematic trajectory (or frozen atoms for the energy test).
// Reference: an independent implementation of the documented scheme — half kick, energies at t,
// half kick, half drift, Ornstein-Uhlenbeck step with the engine's (counter-based) Gaussian
// numbers, half drift, reflection, wrapping — fed with the actual value the library computed and
// with bias forces recomputed from the documented potentials at the model's own coordinate.
// Oracle, every step: reported value (fictitious coordinate at t), coordinate and velocity after
// the step, kinetic and coupling energy, the force handed to the variable's atoms (spring times
// factor, plus bypass forces) equal the model's (1e-10); the coordinate is inside reflecting
// boundaries; a repeated step (run boundary or restart) does not advance the coordinate a second
// time; with frozen atoms, no friction and a constant force, Ek + Ep - F x shows no drift and
// fluctuates by (omega dt)^2/16 of the oscillation's energy scale (bounds: 0.1 and, for the drift between the first and last quarter, 0.05).
#include "simrun.h"
#include "scenario.h"

#include <cmath>
#include <memory>
#include <set>

using namespace sim;

namespace {

struct Spec {
  std::string kind; bool periodic = false;
  double width = 1, lower = 0, upper = 0;
  double fluct = 1, period = 100, gamma = 0; bool refl_lo = false, refl_hi = false; int tsf = 1;
  std::string bias = "none";   // none | harmonic | linear | walls | harmonic_bypass
  double K = 0, c = 0, wall_lo = 0, wall_hi = 0; bool has_lo = false, has_hi = false;
  double dt = 1, temp = 300, kB = 0.001987191;
};

J gen(uint64_t seed, bool thorough) {
  Rng r(seed, 17);
  EngineCfg ec;
  ec.natoms = (int)r.range(8, 14);
  ec.data_seed = r.next() >> 12; ec.noise_seed = r.next() >> 12;
  static const double dts[] = {0.5, 1.0, 2.0};
  ec.dt = dts[r.below(3)]; ec.temperature = 300.0; ec.forces_late = false;
  ec.traj_amp = r.uniform(0.2, 0.8);
  bool energy_test = r.chance(0.15);
  ec.frozen = energy_test;
  TrajModel m; m.build(ec.data_seed, ec.natoms, ec.traj_amp, ec.force_amp, false);
  long T = energy_test ? 400 : (thorough ? 120 : 60);
  J plan = J::obj();
  plan["v"] = 1; plan["property"] = "C17"; plan["seed"] = (long long)seed;
  J sc = J::obj();
  J e = J::obj(); ec.to_json(e); sc["engine"] = e;
  sc["config"] = global_config(1, 0, false);
  sc["T"] = (long long)T;
  static const char *kinds[] = {"distance", "distanceZ", "dihedral", "angle", "distanceXY"};
  std::string kind = kinds[r.below(5)];
  if (energy_test && kind == "dihedral") kind = "angle";   // (a harmonic potential on a circle has a cusp opposite to its centre: no smooth energy to conserve)
  CvSpec cv = make_cv(r, ec.natoms, kind, "x");
  place_grid(cv, m, T, r, (int)r.range(5, 10), 1.0);
  double lo, hi; cv_range(cv, m, T, lo, hi);
  cv.width = strtod(num(cv.width).c_str(), nullptr); cv.lower = strtod(num(cv.lower).c_str(), nullptr); cv.upper = strtod(num(cv.upper).c_str(), nullptr);   // as the configuration text will carry them
  Spec sp; sp.kind = cv.kind; sp.periodic = cv.periodic(); sp.width = cv.width; sp.lower = cv.lower; sp.upper = cv.upper; sp.dt = ec.dt;
  // (rounded, so that the configuration text carries exactly the numbers the model uses)
  auto r5 = [](double v) { double m = std::pow(10.0, 5 - (int)std::ceil(std::log10(std::fabs(v) + 1e-300))); return std::round(v * m) / m; };
  sp.fluct = r5(cv.width * r.uniform(0.3, 2.0));
  sp.period = r5(ec.dt * r.uniform(25, 300));   // (multiplied by the factor below)
  sp.gamma = (energy_test || r.chance(0.4)) ? 0.0 : r5(r.uniform(0.5, 30.0));
  if (!sp.periodic && !energy_test) {
    // reflecting boundaries inside the range the variable visits, so that they are met
    if (r.chance(0.3)) { sp.refl_lo = true; cv.lower = sp.lower = std::round((lo + 0.2 * (hi - lo)) * 1000) / 1000; }
    if (r.chance(0.3)) { sp.refl_hi = true; cv.upper = sp.upper = std::round((hi - 0.2 * (hi - lo)) * 1000) / 1000; }
    if (sp.lower >= sp.upper) { sp.refl_lo = sp.refl_hi = false; }
  }
  sp.tsf = (!energy_test && r.chance(0.2)) ? (int)r.range(2, 3) : 1;
  sp.period = r5(sp.period * sp.tsf);   // at least 25 integration steps per period: outside the stable regime the map is chaotic and no comparison is meaningful
  double const kmax = 0.001987191 * 300.0 * cv.width * cv.width / (sp.fluct * sp.fluct);   // bias curvature K/w^2 comparable to the coupling spring's
  cv.extra += "  extendedLagrangian on\n  extendedFluctuation " + num(sp.fluct) + "\n  extendedTimeConstant " + num(sp.period) + "\n  extendedLangevinDamping " + num(sp.gamma) + "\n  outputEnergy on\n  outputVelocity on\n";
  if (sp.refl_lo) cv.extra += "  reflectingLowerBoundary on\n";
  if (sp.refl_hi) cv.extra += "  reflectingUpperBoundary on\n";
  if (sp.tsf > 1) cv.extra += "  timeStepFactor " + std::to_string(sp.tsf) + "\n";
  double mid = 0.5 * (lo + hi), span = std::max(1e-3, hi - lo);
  double u = r.unit();
  std::string bias;
  std::string tsfl = sp.tsf > 1 ? "  timeStepFactor " + std::to_string(sp.tsf) + "\n" : "";
  if (energy_test) {
    if (sp.periodic) { sp.bias = "harmonic"; sp.K = r5(kmax * r.uniform(0.2, 2)); sp.c = std::round((mid + r.uniform(-1, 1) * sp.fluct) * 1000) / 1000; }
    else { sp.bias = "linear"; sp.K = std::round(r.uniform(-3, 3) * 1000) / 1000; sp.c = std::round(mid * 1000) / 1000; }
  } else if (u < 0.2) sp.bias = "none";
  else if (u < 0.5) { sp.bias = "harmonic"; sp.K = r5(kmax * r.uniform(0.1, 3)); sp.c = std::round((mid + r.uniform(-0.6, 0.6) * span) * 1000) / 1000; }
  else if (u < 0.65 && !sp.periodic) { sp.bias = "linear"; sp.K = std::round(r.uniform(-3, 3) * 1000) / 1000; sp.c = std::round(mid * 1000) / 1000; }
  else if (u < 0.85 && !sp.periodic) {
    sp.bias = "walls"; sp.K = std::round(r.uniform(0.5, 20) * 1000) / 1000;
    int which = (int)r.range(0, 2);
    if (which != 1) { sp.has_lo = true; sp.wall_lo = std::round((mid - r.uniform(0.05, 0.4) * span) * 1000) / 1000; }
    if (which != 2) { sp.has_hi = true; sp.wall_hi = std::round((mid + r.uniform(0.05, 0.4) * span) * 1000) / 1000; }
  } else sp.bias = "none";   // (bypassExtendedLagrangian is only provided by harmonicWalls and histogram)
  if (sp.bias == "harmonic" || sp.bias == "harmonic_bypass") bias = "harmonic {\n  name b\n  colvars x\n  centers " + num(sp.c) + "\n  forceConstant " + num(sp.K) + "\n" + tsfl + (sp.bias == "harmonic_bypass" ? "  bypassExtendedLagrangian on\n" : "") + "}\n";
  else if (sp.bias == "linear") bias = "linear {\n  name b\n  colvars x\n  centers " + num(sp.c) + "\n  forceConstant " + num(sp.K) + "\n" + tsfl + "}\n";
  else if (sp.bias == "walls") bias = std::string("harmonicWalls {\n  name b\n  colvars x\n") + (sp.has_lo ? "  lowerWalls " + num(sp.wall_lo) + "\n" : "") + (sp.has_hi ? "  upperWalls " + num(sp.wall_hi) + "\n" : "") + "  forceConstant " + num(sp.K) + "\n" + tsfl + "}\n";
  else if (sp.tsf > 1) bias = "histogram {\n  name b\n  colvars x\n" + tsfl + "}\n";   // something must request the variable on schedule
  sc["cv"] = cv.config(); sc["bias"] = bias;
  J js = J::obj();
  js["kind"] = sp.kind; js["periodic"] = sp.periodic; js["width"] = sp.width; js["lower"] = sp.lower; js["upper"] = sp.upper; js["fluct"] = sp.fluct; js["period"] = sp.period; js["gamma"] = sp.gamma;
  js["refl_lo"] = sp.refl_lo; js["refl_hi"] = sp.refl_hi; js["tsf"] = sp.tsf; js["bias"] = sp.bias; js["K"] = sp.K; js["c"] = sp.c; js["wall_lo"] = sp.wall_lo; js["wall_hi"] = sp.wall_hi; js["has_lo"] = sp.has_lo; js["has_hi"] = sp.has_hi;
  js["energy_test"] = energy_test;
  sc["spec"] = js;
  J ops = J::arr(); std::string sig = sp.kind.substr(0, 5) + "/" + sp.bias.substr(0, 4) + (sp.gamma > 0 ? "/L" : "/N") + (sp.refl_lo || sp.refl_hi ? "/R" : "") + "/t" + std::to_string(sp.tsf) + "/";
  long left = T; int nseg = energy_test ? 1 : (int)r.range(1, 4);
  for (int s = 0; s < nseg && left > 0; s++) {
    long n = s == nseg - 1 ? left : r.range(1, std::max<long>(1, left - (nseg - 1 - s)));
    if (sp.tsf > 1 && s < nseg - 1) n -= n % sp.tsf;   // run boundaries on the variable's schedule
    if (n <= 0) continue;
    J op = J::obj(); op["w"] = 0; op["op"] = "run"; op["n"] = (long long)n; ops.push(op); left -= n; sig += "r";
    if (s < nseg - 1 && r.chance(0.4)) { J o2 = J::obj(); o2["w"] = 0; o2["op"] = "restart"; ops.push(o2); sig += "S"; }
  }
  sc["template"] = sig;
  plan["scenario"] = sc;
  plan["ops"] = ops;
  return plan;
}

struct Model {
  Spec s; double k = 0, mass = 0, sigma = 0, g = 0;
  double x = 0, v = 0, px = 0, pv = 0; bool init = false;
  double ek = 0, ep = 0, reported = 0, f_atoms = 0, fb_ext = 0;
  double wrapd(double d) const { if (!s.periodic) return d; d = std::fmod(d, 360.0); if (d > 180) d -= 360; if (d < -180) d += 360; return d; }
  void setup() {
    k = s.kB * s.temp / (s.fluct * s.fluct);
    mass = s.kB * s.temp * s.period * s.period / (4.0 * M_PI * M_PI * s.fluct * s.fluct);
    g = s.gamma * 1e-3;
    sigma = g > 0 ? std::sqrt((1.0 - std::exp(-2.0 * g * s.dt * s.tsf)) * mass * s.kB * s.temp) : 0.0;
  }
  // force of the bias at coordinate q
  double bias_force(double q) const {
    double w2 = s.width * s.width;
    if (s.bias == "harmonic" || s.bias == "harmonic_bypass") return -s.K / w2 * wrapd(q - s.c);
    if (s.bias == "linear") return -s.K / s.width;
    if (s.bias == "walls") { if (s.has_lo && q < s.wall_lo) return -s.K / w2 * (q - s.wall_lo); if (s.has_hi && q > s.wall_hi) return -s.K / w2 * (q - s.wall_hi); return 0; }
    return 0;
  }
  // one evaluated step; xa = actual value; repeat = the same step is evaluated again; noise = N(0,1) for this step
  void step(double xa, bool repeat, double noise) {
    if (!init) {
      x = xa; if (s.refl_lo && x < s.lower) x = s.lower; if (s.refl_hi && x > s.upper) x = s.upper; v = 0; init = true;
    } else if (repeat) { x = px; v = pv; }
    reported = x;
    bool bypass = s.bias == "walls" || s.bias == "harmonic_bypass";
    double fb = bypass ? 0.0 : bias_force(x), fa = bypass ? bias_force(xa) : 0.0;
    double d = wrapd(x - xa);
    double fsys = -k * d, fext = fb + fsys, dt = s.dt * s.tsf;
    px = x; pv = v;
    v += 0.5 * dt * fext / mass;
    ek = 0.5 * mass * v * v; ep = 0.5 * k * d * d;
    v += 0.5 * dt * fext / mass;
    x += 0.5 * dt * v;
    if (g > 0) v = std::exp(-dt * g) * v + sigma * noise / mass;
    x += 0.5 * dt * v;
    double delta = 0;
    if ((s.refl_lo && (delta = x - s.lower) < 0) || (s.refl_hi && (delta = x - s.upper) > 0)) { x -= 2.0 * delta; v = -0.5 * (pv + v); }
    if (s.periodic) { x = std::fmod(x, 360.0); if (x >= 180) x -= 360; if (x < -180) x += 360; }
    f_atoms = (-fsys + fa) * s.tsf; fb_ext = fb;
  }
};

bool close_enough(double a, double b, double rtol, double atol) { return std::fabs(a - b) <= atol + rtol * std::max(std::fabs(a), std::fabs(b)); }

RunResult run(J const &plan) {
  RunResult res;
  J const &sc = plan.at("scenario");
  EngineCfg ec; std::string config; long T;
  scenario_from_json(sc, ec, config, T);
  J const &js = sc.at("spec");
  Model M; Spec &sp = M.s;
  sp.kind = js.at("kind").as_str(); sp.periodic = js.at("periodic").as_bool(); sp.width = js.at("width").as_num(); sp.lower = js.at("lower").as_num(); sp.upper = js.at("upper").as_num();
  sp.fluct = js.at("fluct").as_num(); sp.period = js.at("period").as_num(); sp.gamma = js.at("gamma").as_num(); sp.refl_lo = js.at("refl_lo").as_bool(); sp.refl_hi = js.at("refl_hi").as_bool();
  sp.tsf = (int)js.at("tsf").as_int(1); sp.bias = js.at("bias").as_str(); sp.K = js.at("K").as_num(); sp.c = js.at("c").as_num(); sp.wall_lo = js.at("wall_lo").as_num(); sp.wall_hi = js.at("wall_hi").as_num();
  sp.has_lo = js.at("has_lo").as_bool(); sp.has_hi = js.at("has_hi").as_bool(); sp.dt = ec.dt; sp.temp = ec.temperature;
  bool energy_test = js.at("energy_test").as_bool();
  M.setup();
  SimRun sim(1);
  std::string conf = config + sc.at("cv").as_str() + sc.at("bias").as_str();
  std::unique_ptr<Engine> e(new Engine(ec));
  long compared = 0, reflections = 0, repeats = 0, restarts = 0;
  std::vector<double> etot;
  long last_step = -1;
  bool fresh = true;   // the next evaluated step is the first of a fresh engine
  auto hook = [&](Engine *ep) {
    ep->after_step = [&, ep](long step) {
      if (res.violation) return;
      StepRec const &r = ep->rec.back();
      colvar *cv = (*ep->colvars->variables())[0];
      std::string at = "step " + std::to_string(step) + (r.continuing ? " (repeated)" : "");
      if (r.err) { res.fail("integrator", "step_error", at + ": " + ep->last_error()); return; }
      if (sp.tsf > 1 && step % sp.tsf != 0) return;   // the variable sleeps
      bool repeat = step == last_step;
      if (repeat) repeats++;
      double xa = cv->actual_value().real_value;
      double noise = counter_gauss(ec.noise_seed, 0, (uint64_t)step, 0);
      double x_before_reflect = M.x;
      M.step(xa, repeat, noise);
      (void)x_before_reflect;
      last_step = step; fresh = false;
      double lx = colvars_verif_access::ext_x(cv), lv = colvars_verif_access::ext_v(cv), lek = colvars_verif_access::ext_ek(cv), lep = colvars_verif_access::ext_ep(cv);
      double lrep = r.cv[0], lfa = colvars_verif_access::atoms_force(cv), lfr = r.cv_fa[0];
      if (getenv("CVSIM_C17_TRACE")) fprintf(stderr, "t=%ld rep=%d xa=%.15g | x %.15g %.15g | v %.15g %.15g | fr %.15g %.15g\n", step, (int)repeat, xa, lx, M.x, lv, M.v, r.cv_fa[0], M.fb_ext);
      std::string sfx = repeat ? "/on_repeated_step" : "";
      // scales: a state file carries 14 significant digits of a coordinate that may be ~100 while the oscillation is ~fluctuation
      double const rt = 1e-10;
      double const ax = 1e-11 * std::max(1.0, std::fabs(M.x)) + 1e-10 * sp.fluct, av = 1e-9 * (2.0 * M_PI / sp.period) * sp.fluct, ae = 1e-9 * sp.kB * sp.temp, af = 10.0 * M.k * ax + 1e-9 * std::fabs(sp.K) / (sp.width * sp.width) * sp.fluct;
      if (!close_enough(lrep, M.reported, rt, ax)) { res.fail("integrator", "reported_value" + sfx, at + ": reported value " + fmt_double(lrep) + ", model " + fmt_double(M.reported)); return; }
      if (!close_enough(lx, M.x, rt, ax)) { res.fail("integrator", "coordinate" + sfx, at + ": coordinate after the step " + fmt_double(lx) + ", model " + fmt_double(M.x)); return; }
      if (!close_enough(lv, M.v, rt, av)) { res.fail("integrator", "velocity" + sfx, at + ": velocity after the step " + fmt_double(lv) + ", model " + fmt_double(M.v)); return; }
      if (!close_enough(lek, M.ek, 1e-9, ae)) { res.fail("integrator", "kinetic_energy" + sfx, at + ": " + fmt_double(lek) + ", model " + fmt_double(M.ek)); return; }
      if (!close_enough(lep, M.ep, 1e-9, ae)) { res.fail("integrator", "coupling_energy" + sfx, at + ": " + fmt_double(lep) + ", model " + fmt_double(M.ep)); return; }
      if (!close_enough(lfr, M.fb_ext, 1e-9, af)) { res.fail("routing", "bias_force_on_coordinate" + sfx, at + ": reported bias force on the fictitious coordinate " + fmt_double(lfr) + ", model " + fmt_double(M.fb_ext)); return; }
      if (!close_enough(lfa, M.f_atoms, 1e-9, af * sp.tsf)) { res.fail("routing", "force_on_atoms" + sfx, at + ": the variable hands " + fmt_double(lfa) + " to its atoms, model (spring" + (sp.bias == "walls" || sp.bias == "harmonic_bypass" ? " + bypass bias" : "") + ") " + fmt_double(M.f_atoms)); return; }
      if ((sp.refl_lo && lx < sp.lower - 1e-12) || (sp.refl_hi && lx > sp.upper + 1e-12)) { res.fail("boundaries", "outside_reflecting_boundary", at + ": coordinate " + fmt_double(lx) + " outside [" + fmt_double(sp.lower) + ", " + fmt_double(sp.upper) + "]"); return; }
      if ((sp.refl_lo || sp.refl_hi) && ((M.v > 0) != (M.pv > 0)) ) reflections++;
      if (energy_test) { double F = sp.bias == "linear" ? -sp.K / sp.width : 0.0; double extra = sp.bias == "harmonic" ? 0.5 * sp.K / (sp.width * sp.width) * M.wrapd(M.reported - sp.c) * M.wrapd(M.reported - sp.c) : -F * M.reported; etot.push_back(lek + lep + extra); }
      compared++;
      // the comparison is step by step: the model continues from the library's state (differences would otherwise be amplified by the dynamics)
      M.x = lx; M.v = lv;
    };
  };
  if (e->configure(conf) != COLVARS_OK || cvm::get_error()) { res.counters["probe.configuration_refused"]++; res.detail = e->last_error(); sim.finish(res); return res; }
  hook(e.get());
  for (auto const &op : plan.at("ops").a) {
    if (res.violation) break;
    std::string k = op.at("op").as_str();
    cvm::clear_error();
    if (k == "run") e->run((int)op.at("n").as_int(1), true);
    else if (k == "restart") {
      // the state written at the end of the last run is read by a fresh instance, which repeats the last step
      long at_step = (long)cvm::step_absolute();
      e.reset();
      ModuleStatics().load();
      ec.out_prefix = ""; 
      e.reset(new Engine(ec));
      e->configure(conf);
      e->first_step = at_step;
      hook(e.get());
      if (e->load_state("/simfs/w0/out") != COLVARS_OK) { res.fail("integrator", "state_not_loaded", e->last_error()); break; }
      restarts++; fresh = true;
    }
  }
  add_steps(res, *e);
  // energy: no drift, fluctuation at second order
  if (!res.violation && energy_test && etot.size() > 100) {
    double omega = 2.0 * M_PI / sp.period;   // sqrt(k/m)
    double wdt2 = (omega * sp.dt) * (omega * sp.dt);
    size_t n = etot.size(), q = n / 4;
    double a = 0, b = 0, mean = 0, amp = 0, emax = 0;
    for (size_t i = 1; i <= q; i++) a += etot[i]; for (size_t i = n - q; i < n; i++) b += etot[i]; a /= (double)q; b /= (double)q;
    for (size_t i = 1; i < n; i++) mean += etot[i]; mean /= (double)(n - 1);
    for (size_t i = 1; i < n; i++) { amp = std::max(amp, std::fabs(etot[i] - mean)); }
    // energy scale: the largest kinetic+coupling energy the oscillation holds
    for (size_t i = 1; i < n; i++) emax = std::max(emax, std::fabs(etot[i] - etot[1]) ); 
    double scale = 0; { double F = sp.bias == "linear" ? std::fabs(sp.K / sp.width) : std::fabs(sp.K / (sp.width * sp.width)) * sp.fluct; scale = std::max(1e-12, F * F / M.k); }
    res.counters["probe.energy_tests"]++;
    if (getenv("CVSIM_C17_TRACE")) fprintf(stderr, "energy: drift/(wdt2*scale) = %g  amp/(wdt2*scale) = %g  wdt2 = %g scale = %g mean = %g\n", std::fabs(b - a) / (wdt2 * scale), amp / (wdt2 * scale), wdt2, scale, mean);
    if (std::fabs(b - a) > 0.05 * wdt2 * scale + 1e-9 * scale) res.fail("energy", "drift", "Ek + Ep + bias work: mean over the first quarter " + fmt_double(a) + ", over the last quarter " + fmt_double(b) + " (scale " + fmt_double(scale) + ", (omega dt)^2 = " + fmt_double(wdt2) + ")");
    else if (amp > 0.1 * wdt2 * scale + 1e-9 * scale) res.fail("energy", "fluctuation_above_second_order", "Ek + Ep + bias work fluctuates by " + fmt_double(amp) + " > 0.1 (omega dt)^2 x scale = " + fmt_double(0.1 * wdt2 * scale) + " (the scheme gives 1/16)");
  }
  sim.finish(res);
  res.counters["probe.steps_compared"] += compared;
  res.counters["probe.repeated_steps"] += repeats;
  res.counters["probe.restarts"] += restarts; res.counters["fault.stop_and_restart"] += restarts;
  res.counters["probe.reflections"] += reflections;
  res.nontrivial = compared > 0;
  res.class_hash = fnv_str(sc.at("template").as_str(), 17);
  res.features = sp.bias + (sp.gamma > 0 ? "+langevin" : "") + (sp.refl_lo || sp.refl_hi ? "+reflecting" : "") + (sp.tsf > 1 ? "+mts" : "") + (restarts ? "+restart" : "") + (sp.periodic ? "+periodic" : "");
  uint64_t fp = 1469598103934665603ULL; fp = fnv_dbl(M.x, fp); fp = fnv_dbl(M.v, fp);
  res.fingerprint = fnv_u64(fp, res.fingerprint);
  return res;
}

Property make() {
  Property p;
  p.id = "C17"; p.level = "exploration"; p.design_ref = "DESIGN.md §7 C17";
  p.rule = "plan = one extended-Lagrangian variable (5 kinds; fluctuation, time constant 25-300 steps, friction 0 or 0.5-30 /ps, reflecting boundaries inside the visited range, timeStepFactor 1-3, dt 0.5/1/2 fs) with "
           "no bias / harmonic / linear / harmonic walls (bypass) / harmonic with bypassExtendedLagrangian, 60-120 steps in 1-4 run segments with optional stop/restart through the state file; 15% energy tests (frozen atoms, no friction, 400 steps); "
           "non-trivial = at least one step compared; distinct = hash of (kind, bias, friction, reflection, factor, segmentation)";
  p.assumptions = {"the model takes the actual value from the library (colvar::actual_value) and recomputes bias forces from the documented potentials at its own coordinate",
                   "a repeated step (run boundary or first step after a restart) must leave the coordinate where the first evaluation of that step left it",
                   "Gaussian numbers come from the engine's counter-based source (seed, step, call index), so the model draws the same ones"};
  p.real_components = {"colvar::update_extended_Lagrangian, calc_colvar_properties (initialisation, repeated-step reversion), update_forces_energy (routing)", "restraint biases", "state write/read of extended_x/extended_v"};
  p.stub_components = {"MD engine (kinematic or frozen atoms)", "file system (sim::FS)", "random source (counter-based)"};
  p.gen = gen; p.run = run;
  p.quick_runs = 4000; p.thorough_runs = 100000; p.quick_secs = 70; p.thorough_secs = 900;
  return p;
}
Registrar reg(make());

}  // namespace
