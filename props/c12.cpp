// C12 — results do not depend on threading or on the order of evaluation.
//
// Mode A: the library's real OpenMP code runs on simgomp; each parallel region forks real
//         threads that the seeded scheduler releases one at a time (team size 2-8, the plan's
//         `sched` decides who runs next, who wins each lock/single).  In the TSan flavour the
//         same executions are the race oracle (happens-before analysis over serialised threads).
// Mode B: the smp virtuals are overridden (as NAMD's CkLoop proxy does): arbitrary permutation
//         of work items and arbitrary item -> thread-id map.
// Oracle 1 (differential, bitwise): per-step values/energies/forces, final state, trajectory
//         bytes and error bits equal the `smp off` run of the same plan.
// Oracle 2 (race): no ThreadSanitizer report with a frame in /repo/src.
// Oracle 3: every thread's log depth is back to zero after each step.
#include "simrun.h"
#include "scenario.h"

#include <cmath>
#include <memory>

using namespace sim;

#ifdef FLAVOUR_tsan
extern "C" {
int __tsan_get_report_data(void *report, const char **description, int *count, int *stack_count, int *mop_count, int *loc_count,
                           int *mutex_count, int *thread_count, int *unique_tid_count, void **sleep_trace, unsigned long trace_size);
int __tsan_get_report_mop(void *report, unsigned long idx, int *tid, void **addr, int *size, int *write, int *atomic, void **trace,
                          unsigned long trace_size);
void __sanitizer_symbolize_pc(void *pc, const char *fmt, char *out_buf, unsigned long out_buf_size);
}
namespace {
std::vector<std::string> g_race_reports;   // one signature per report that involves library code
int g_race_total = 0;
}
extern "C" void __tsan_on_report(void *rep) {
  const char *descr = nullptr; int count = 0, stacks = 0, mops = 0, locs = 0, mtx = 0, thr = 0, utid = 0; void *sleep[4];
  __tsan_get_report_data(rep, &descr, &count, &stacks, &mops, &locs, &mtx, &thr, &utid, sleep, 4);
  g_race_total++;
  std::string sig;
  bool in_lib = false;
  for (int m = 0; m < mops && m < 2; m++) {
    int tid, size, write, atomic; void *addr; void *trace[12] = {0};
    __tsan_get_report_mop(rep, (unsigned long)m, &tid, &addr, &size, &write, &atomic, trace, 12);
    std::string top;
    for (int k = 0; k < 12 && trace[k]; k++) {
      char buf[512];
      __sanitizer_symbolize_pc(trace[k], "%f %s", buf, sizeof buf);
      std::string f(buf);
      if (f.find("/repo/src/") != std::string::npos) {
        in_lib = true;
        if (top.empty()) { size_t sp = f.find(' '); size_t par = f.find('('); top = f.substr(0, std::min(sp, par)); }
      }
    }
    sig += (m ? " <-> " : "") + std::string(write ? "write:" : "read:") + (top.empty() ? "?" : top);
  }
  if (in_lib) g_race_reports.push_back(std::string(descr ? descr : "race") + ":" + sig);
}
#endif

namespace {

struct Comp { CvSpec cv; double coeff = 1.0; int exp = 1; };
struct MultiCv {
  std::string name; std::vector<Comp> comps; double width = 1.0; bool has_bounds = false; double lower = 0, upper = 0;
  double eval(TrajModel const &m, long step) const {
    double v = 0;
    for (auto const &c : comps) v += c.coeff * std::pow(c.cv.eval(m, step), c.exp);
    return v;
  }
  std::string config() const {
    std::string s = "colvar {\n  name " + name + "\n  width " + num(width) + "\n";
    if (has_bounds) s += "  lowerBoundary " + num(lower) + "\n  upperBoundary " + num(upper) + "\n";
    for (auto const &c : comps) {
      CvSpec t = c.cv;
      std::string blk = t.config();   // "colvar {\n  name..\n  width..\n  kind {\n ... }\n}\n"
      size_t a = blk.find("  " + t.kind + " {");
      size_t b = blk.rfind("}\n", blk.size() - 3);
      std::string comp = blk.substr(a, b + 2 - a);
      size_t br = comp.find("{\n");
      std::string ins;
      if (c.coeff != 1.0) ins += "    componentCoeff " + num(c.coeff) + "\n";
      if (c.exp != 1) ins += "    componentExp " + std::to_string(c.exp) + "\n";
      comp.insert(br + 2, ins);
      s += comp;
    }
    s += "}\n";
    return s;
  }
};

J gen(uint64_t seed, bool thorough) {
  Rng r(seed, 12);
  EngineCfg ec;
  ec.natoms = (int)r.range(10, 18);
  ec.data_seed = r.next() >> 12; ec.noise_seed = r.next() >> 12;
  ec.dt = 1.0; ec.temperature = 300.0;
  ec.forces_late = r.chance(0.5);
  ec.traj_amp = r.uniform(0.4, 1.2);
  ec.smp = true;
  long T = r.range(4, thorough ? 30 : 14);
  // a few long runs: thresholds on buffered data (hills trajectory, traj labels every 1000 lines, ...)
  // are only crossed after many steps without an output write
  bool long_run = r.chance(thorough ? 0.04 : 0.012);
  if (long_run) T = r.range(850, thorough ? 2600 : 1300);
  TrajModel m; m.build(ec.data_seed, ec.natoms, ec.traj_amp, ec.force_amp, false);
  int ncv = long_run ? 2 : (int)r.range(2, thorough ? 6 : 4);
  std::vector<MultiCv> cvs;
  static const char *kinds[] = {"distance", "distanceZ", "angle", "dihedral", "distanceXY"};
  std::string sig;
  std::string config = "colvarsTrajFrequency " + std::string(long_run ? "50" : "1") + "\ncolvarsRestartFrequency " + (long_run ? std::string(r.chance(0.5) ? "0" : "5000") : std::to_string(r.range(2, 6))) + "\nsmp on\n";
  bool scripted = r.chance(0.25);
  if (scripted) config += std::string("scriptedColvarForces on\nscriptingAfterBiases ") + (r.chance(0.7) ? "off" : "on") + "\n";
  for (int i = 0; i < ncv; i++) {
    MultiCv mc; mc.name = "v" + std::to_string(i);
    int nc = (int)r.range(1, 4);
    for (int k = 0; k < nc; k++) {
      Comp c; c.cv = make_cv(r, ec.natoms, kinds[r.below(5)], "x");
      if (nc > 1 && c.cv.kind == "dihedral") c.cv.kind = "angle", c.cv.groups.resize(3);
      c.coeff = r.chance(0.5) ? 1.0 : std::round(r.uniform(-2, 2) * 4) / 4;
      if (c.coeff == 0) c.coeff = 0.5;
      c.exp = r.chance(0.2) ? 2 : 1;
      mc.comps.push_back(c);
    }
    double lo = 1e300, hi = -1e300;
    for (long s = 0; s <= T; s++) { double v = mc.eval(m, s); lo = std::min(lo, v); hi = std::max(hi, v); }
    double span = std::max(hi - lo, 0.1);
    bool periodic = nc == 1 && mc.comps[0].cv.kind == "dihedral" && mc.comps[0].coeff == 1.0 && mc.comps[0].exp == 1;
    if (periodic) { mc.width = 30; mc.lower = -180; mc.upper = 180; mc.has_bounds = true; }
    else {
      int nb = (int)r.range(4, 10);
      double w = span * 1.3 / nb; double mag = std::pow(10.0, std::floor(std::log10(w)) - 2); w = std::round(w / mag) * mag;
      mc.width = w; mc.lower = std::floor((lo - 0.15 * span) / w) * w; mc.upper = mc.lower + w * (nb + 1); mc.has_bounds = true;
    }
    cvs.push_back(mc);
    config += mc.config();
    sig += (i ? "+" : "") + std::to_string(nc);
  }
  int nb = (int)r.range(2, thorough ? 6 : 4);
  sig += "|";
  static const char *btm[] = {"harm_fixed", "harm_cmove", "walls_fixed", "linear_fixed", "meta_grid", "meta_nogrid", "histogram", "harm_kmove", "abmd", "meta_wt", "walls_kmove", "linear_kmove"};
  for (int b = 0; b < nb; b++) {
    std::string t = btm[r.below(sizeof btm / sizeof *btm)];
    int k = (int)r.range(1, std::min(2, ncv));
    if (t == "abmd") k = 1;
    std::vector<int> idx; for (int i = 0; i < ncv; i++) idx.push_back(i);
    for (int i = ncv - 1; i > 0; i--) std::swap(idx[(size_t)i], idx[r.below((uint64_t)i + 1)]);
    idx.resize((size_t)k);
    std::vector<CvSpec> sub; std::vector<std::pair<double, double>> rg;
    for (int i : idx) {
      CvSpec c; c.name = cvs[(size_t)i].name; c.width = cvs[(size_t)i].width; c.kind = "distance"; sub.push_back(c);
      double lo = 1e300, hi = -1e300;
      for (long s = 0; s <= T; s++) { double v = cvs[(size_t)i].eval(m, s); lo = std::min(lo, v); hi = std::max(hi, v); }
      rg.emplace_back(lo, hi);
    }
    BiasSpec bs = make_bias(t, r, sub, rg, T, "b" + std::to_string(b));
    size_t p = bs.config.find("  timeStepFactor");
    if (p != std::string::npos) bs.config.erase(p, bs.config.find('\n', p) - p + 1);
    if (long_run && t.compare(0, 4, "meta") == 0) {
      size_t q = bs.config.find("  newHillFrequency");
      if (q != std::string::npos) bs.config.replace(q, bs.config.find('\n', q) - q, "  newHillFrequency 1");
      if (bs.config.find("writeHillsTrajectory") == std::string::npos) bs.config.insert(bs.config.rfind("}"), "  writeHillsTrajectory on\n");
    }
    // a third of the metadynamics biases are set up for multiple walkers (peers absent): hills and states also go to the replica files
    if (t.compare(0, 4, "meta") == 0 && r.chance(0.33))
      bs.config.insert(bs.config.rfind("}"), "  multipleReplicas on\n  replicaID w0\n  replicasRegistry /simfs/shared/registry_b" + std::to_string(b) + ".txt\n  replicaUpdateFrequency " + std::to_string(r.range(3, 7)) + "\n");
    // TI estimators need total forces, which combinations of several components do not provide
    while ((p = bs.config.find("  writeTI")) != std::string::npos) bs.config.erase(p, bs.config.find('\n', p) - p + 1);
    config += bs.config;
    sig += (b ? "," : "") + t;
  }
  J plan = J::obj();
  plan["v"] = 1; plan["property"] = "C12"; plan["seed"] = (long long)seed;
  J sc = J::obj();
  sc["template"] = sig;
  J e = J::obj(); ec.to_json(e); sc["engine"] = e;
  sc["T"] = (long long)T; sc["config"] = config;
  sc["threads"] = (long long)r.range(2, 8);
  sc["mode"] = r.chance(0.6) ? "A" : "B";
  sc["perm_seed"] = (long long)(r.next() >> 16);
  sc["scripted"] = scripted;
  plan["scenario"] = sc;
  J ops = J::arr();
  long cur = 0;
  int nseg = (int)r.range(1, 3);
  for (int s = 0; s < nseg && cur < T; s++) {
    long n = s == nseg - 1 ? T - cur : r.range(1, T - cur);
    if (s > 0 || r.chance(0.3)) {
      // toggle components of a multi-component variable
      for (int i = 0; i < ncv; i++) {
        size_t nc = cvs[(size_t)i].comps.size();
        if (nc < 2 || !r.chance(0.5)) continue;
        J f = J::obj(); f["w"] = 0; f["op"] = "cvcflags"; f["cv"] = cvs[(size_t)i].name;
        J fl = J::arr(); bool any = false;
        for (size_t k = 0; k < nc; k++) { bool on = r.chance(0.6); any = any || on; fl.push(J(on ? 1 : 0)); }
        if (!any) fl.a[r.below(nc)] = J(1);
        f["flags"] = fl;
        ops.push(f);
      }
    }
    J op = J::obj(); op["w"] = 0; op["op"] = "run"; op["n"] = (long long)n; op["end"] = "graceful";
    ops.push(op);
    cur += n;
  }
  plan["ops"] = ops;
  J sched = J::arr();
  int ns = (int)r.range(0, 120);
  for (int i = 0; i < ns; i++) sched.push(J((long long)r.range(0, 7)));
  plan["sched"] = sched;
  return plan;
}

struct Outcome {
  std::vector<StepRec> rec; std::string state, traj; int err = 0; std::string bad_depth; bool config_error = false;
  uint64_t parallel_regions = 0;
};

struct ModeBEngine : public Engine {
  using Engine::Engine;
  bool mode_b = false;
  uint64_t perm_seed = 0;
  int cur_tid = 0;
  uint64_t loops = 0;
  std::vector<int> order(int n, std::vector<int> &tids) {
    Rng r(mix64(perm_seed, loops++), 4);
    std::vector<int> o((size_t)n); tids.resize((size_t)n);
    for (int i = 0; i < n; i++) o[(size_t)i] = i;
    for (int i = n - 1; i > 0; i--) std::swap(o[(size_t)i], o[r.below((uint64_t)i + 1)]);
    int nt = std::max(1, gomp_get_threads());
    for (int i = 0; i < n; i++) tids[(size_t)i] = (int)r.below((uint64_t)nt);
    return o;
  }
  int smp_thread_id() override { return mode_b ? cur_tid : Engine::smp_thread_id(); }
  int smp_loop(int n, std::function<int(int)> const &worker) override {
    if (!mode_b) return Engine::smp_loop(n, worker);
    int err = COLVARS_OK;
    cvm::increase_depth();
    std::vector<int> tids; std::vector<int> o = order(n, tids);
    for (int i : o) { cur_tid = tids[(size_t)i]; err |= worker(i); }
    cur_tid = 0;
    cvm::decrease_depth();
    return err;
  }
  int smp_biases_loop() override {
    if (!mode_b) return Engine::smp_biases_loop();
    colvarmodule *cv = cvm::main();
    int n = (int)cv->biases_active()->size();
    std::vector<int> tids; std::vector<int> o = order(n, tids);
    for (int i : o) { cur_tid = tids[(size_t)i]; (*(cv->biases_active()))[(size_t)i]->update(); }
    cur_tid = 0;
    return cvm::get_error();
  }
  int smp_biases_script_loop() override {
    if (!mode_b) return Engine::smp_biases_script_loop();
    colvarmodule *cv = cvm::main();
    int n = (int)cv->biases_active()->size();
    std::vector<int> tids; std::vector<int> o = order(n + 1, tids);
    for (int i : o) {
      if (i == n) { cur_tid = 0; cv->calc_scripted_forces(); }
      else { cur_tid = tids[(size_t)i]; (*(cv->biases_active()))[(size_t)i]->update(); }
    }
    cur_tid = 0;
    return cvm::get_error();
  }
};

struct DepthAccess : public colvarmodule { static std::vector<size_t> const &dv(colvarmodule *m) { return static_cast<DepthAccess *>(m)->depth_v; } };

Outcome execute(J const &plan, bool smp, RunResult &res) {
  Outcome out;
  EngineCfg ec; std::string config; long T;
  scenario_from_json(plan.at("scenario"), ec, config, T);
  J const &sc = plan.at("scenario");
  ec.smp = smp;
  if (!smp) { size_t p = config.find("smp on"); if (p != std::string::npos) config.replace(p, 6, "smp off"); }
  std::unique_ptr<ModeBEngine> e(new ModeBEngine(ec));
  e->mode_b = smp && sc.at("mode").as_str() == "B";
  e->perm_seed = (uint64_t)sc.at("perm_seed").as_int();
  bool scripted = sc.at("scripted").as_bool();
  if (scripted) {
    Engine *ep = e.get();
    e->force_callback = [ep]() {
      // a scripted force: depends only on the current values (like a Tcl calc_colvar_forces)
      std::vector<colvar *> &cvs = *ep->colvars->variables();
      if (cvs.empty()) return COLVARS_OK;
      colvar *cv = cvs[0];
      if (cv->value().type() == colvarvalue::type_scalar && cv->is_enabled(colvardeps::f_cv_apply_force)) {
        colvarvalue f(colvarvalue::type_scalar); f.real_value = -0.37 * cv->value().real_value;
        cv->add_bias_force(f);
      }
      return COLVARS_OK;
    };
  }
  if (e->configure(config) != COLVARS_OK || cvm::get_error()) { out.config_error = true; out.bad_depth = e->last_error(); return out; }
  for (auto const &op : plan.at("ops").a) {
    std::string k = op.at("op").as_str();
    if (k == "cvcflags") {
      std::string fl;
      for (auto const &f : op.at("flags").a) fl += (fl.empty() ? "" : " ") + std::to_string(f.as_int());
      e->run_script({"cv", "colvar", op.at("cv").as_str(), "cvcflags", fl});
    } else if (k == "run") {
      e->after_step = [&](long step) {
        std::vector<size_t> const &dv = DepthAccess::dv(e->colvars);
        for (size_t t = 0; t < dv.size(); t++) if (dv[t] != 0 && out.bad_depth.empty()) out.bad_depth = "thread " + std::to_string(t) + " depth " + std::to_string(dv[t]) + " after step " + std::to_string(step);
      };
      e->run((int)op.at("n").as_int(1), op.at("end").as_str() == "graceful");
      e->after_step = nullptr;
    }
  }
  out.err = cvm::get_error();
  out.rec = e->rec;
  out.state = e->save_state_string();
  fs().get("/simfs/w0/out.colvars.traj", out.traj);
  out.parallel_regions = gomp_stats().regions_parallel;
  add_steps(res, *e);
  return out;
}

RunResult run(J const &plan) {
  RunResult res;
  J const &sc = plan.at("scenario");
  std::vector<int> sched;
  for (auto const &v : plan.at("sched").a) sched.push_back((int)v.as_int());
  int threads = (int)sc.at("threads").as_int(2);
  std::string mode = sc.at("mode").as_str("A");
  uint64_t fp = 1469598103934665603ULL;
  Outcome ref, par;
  {
    SimRun sim(1, {}, 1);
    ref = execute(plan, false, res);
    sim.finish(res);
  }
  if (ref.config_error) { res.counters["probe.invalid_config"]++; res.detail = ref.bad_depth; return res; }
  GompStats gs;
#ifdef FLAVOUR_tsan
  g_race_reports.clear();
#endif
  {
    SimRun sim(1, sched, threads);
    par = execute(plan, true, res);
    gs = gomp_stats();
    sim.finish(res);
  }
  fp = hash_recs(ref.rec, fp); fp = hash_recs(par.rec, fp);
  res.fingerprint = fnv_u64(fp, res.fingerprint);
  res.counters["probe.parallel_regions"] += (long long)gs.regions_parallel;
  res.counters["probe.lock_acquired"] += (long long)gs.lock_acquired;
  res.counters["probe.lock_contended"] += (long long)gs.lock_contended;
  res.counters["probe.single_constructs"] += (long long)gs.singles;
  res.counters["probe.mode_" + mode]++;
  if (par.config_error) res.fail("differential", "config_rejected_only_with_smp", "configuration accepted with smp off but rejected with smp on");
  // Oracle 1
  if (!res.violation) {
    if (ref.rec.size() != par.rec.size()) res.fail("differential", "record_count", std::to_string(ref.rec.size()) + " vs " + std::to_string(par.rec.size()));
    for (size_t i = 0; i < ref.rec.size() && !res.violation; i++) {
      StepRec const &a = ref.rec[i], &b = par.rec[i];
      auto diff = [&](std::vector<double> const &x, std::vector<double> const &y, size_t &k) {
        if (x.size() != y.size()) { k = (size_t)-1; return true; }
        for (k = 0; k < x.size(); k++) if (x[k] != y[k] && !(std::isnan(x[k]) && std::isnan(y[k]))) return true;
        return false;
      };
      size_t k = 0;
      std::string at = "step " + std::to_string(a.step);
      if (diff(a.cv, b.cv, k)) res.fail("differential", "value", at + " cv[" + std::to_string(k) + "] serial " + (k < a.cv.size() ? fmt_double(a.cv[k]) : "?") + " smp " + (k < b.cv.size() ? fmt_double(b.cv[k]) : "?"));
      else if (diff(a.bias_e, b.bias_e, k)) res.fail("differential", "bias_energy", at + " bias " + std::to_string(k) + " serial " + fmt_double(a.bias_e[k]) + " smp " + fmt_double(b.bias_e[k]));
      else if (a.energy != b.energy && !(std::isnan(a.energy) && std::isnan(b.energy))) res.fail("differential", "total_energy", at + " serial " + fmt_double(a.energy) + " smp " + fmt_double(b.energy));
      else if (diff(a.fapp, b.fapp, k)) res.fail("differential", "atom_force", at + " comp " + std::to_string(k) + " serial " + fmt_double(a.fapp[k]) + " smp " + fmt_double(b.fapp[k]));
      else if (a.err != b.err) res.fail("differential", "error_bits", at + " serial " + std::to_string(a.err) + " smp " + std::to_string(b.err));
    }
    if (!res.violation && ref.state != par.state) {
      StateDiff d = compare_state_text(ref.state, par.state, 0, 0);
      res.fail("differential", "final_state/" + d.context, "token " + std::to_string(d.index) + " serial '" + d.a + "' smp '" + d.b + "'");
    }
    if (!res.violation && ref.traj != par.traj) res.fail("differential", "trajectory_file", "trajectory bytes differ (" + std::to_string(ref.traj.size()) + " vs " + std::to_string(par.traj.size()) + ")");
    if (!res.violation && ref.err != par.err) res.fail("differential", "final_error_bits", std::to_string(ref.err) + " vs " + std::to_string(par.err));
  }
  // Oracle 3
  if (!res.violation && !par.bad_depth.empty()) res.fail("log_depth", "unbalanced", par.bad_depth);
#ifdef FLAVOUR_tsan
  // Oracle 2
  res.counters["probe.tsan_reports_total"] += g_race_total;
  if (!res.violation && !g_race_reports.empty()) {
    std::string s = g_race_reports[0];
    std::string sig;
    for (char c : s) { if (isdigit((unsigned char)c)) continue; sig += c; }
    if (sig.size() > 160) sig.resize(160);
    res.fail("race", sig, std::to_string(g_race_reports.size()) + " report(s) involving library code; first: " + s);
  }
  g_race_reports.clear();
#endif
  res.nontrivial = mode == "B" ? true : gs.regions_parallel > 0;
  uint64_t sh = 17;
  for (size_t i = 0; i < sched.size() && i < 12; i++) sh = fnv_u64((uint64_t)sched[i], sh);
  res.class_hash = fnv_str(sc.at("template").as_str(), fnv_u64((uint64_t)threads, fnv_str(mode, sh)));
  if (res.violation) res.features = "mode" + mode + "+" + config_features(sc.at("config").as_str());
  return res;
}

void shrink_more(J const &plan, std::vector<J> &out) {
  shrink_scenario_config(plan, out);
  long th = (long)plan.at("scenario").at("threads").as_int(2);
  if (th > 2) { J c = plan; c["scenario"]["threads"] = J(2); out.push_back(std::move(c)); }
  if (plan.at("scenario").at("mode").as_str() == "A") { J c = plan; c["scenario"]["mode"] = "B"; out.push_back(std::move(c)); }
}

Property make() {
  Property p;
  p.id = "C12"; p.level = "exploration"; p.design_ref = "DESIGN.md §7 C12";
  p.rule = "plan = 2-6 variables with 1-4 components each (coefficients, exponents, components switched off through cvcflags between run segments) x 2-6 "
           "biases x optional scripted-force task; mode A runs the library's OpenMP code on simgomp with 2-8 real threads released one at a time by the "
           "seeded schedule, mode B permutes work items and item->thread ids through the smp virtuals; every plan is also run with smp off. non-trivial = "
           "at least one parallel region forked (A) or permuted (B); distinct = hash of (template, team size, mode, schedule prefix)";
  p.rule += " Later additions: a third of the metadynamics biases are set up for multiple walkers (replica files written from the bias loop).";
  p.assumptions = {"preemption only at synchronisation points (parallel-region entry, locks, barriers, single, thread end); unsynchronised conflicting accesses between those "
                   "points are found by TSan's happens-before analysis in the tsan flavour, not by the differential oracle",
                   "bitwise equality is required between the serial and the threaded evaluation"};
  p.real_components = {"colvarproxy_smp::smp_loop/smp_biases_loop/smp_biases_script_loop (real pragma code)", "colvarmodule::calc_colvars/calc_biases", "colvar::calc_cvcs/collect_cvc_data", "biases", "smp_lock users (error bits, depth)"};
  p.stub_components = {"OpenMP runtime (simgomp over the deterministic scheduler)", "MD engine (kinematic)", "file system (sim::FS)"};
  p.gen = gen; p.run = run; p.shrink_more = shrink_more;
  p.quick_runs = 2600; p.thorough_runs = 60000; p.quick_secs = 80; p.thorough_secs = 1200;
  return p;
}
Registrar reg(make());

}  // namespace
