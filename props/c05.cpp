// C05 — the metadynamics bias is the sum of the hills deposited on schedule.
//
// Workload: metadynamics on 1-2 scalar variables (periodic or not) with grids covering part or all
// of the sampled range (excursions beyond the boundaries, also on deposition steps), hillWidth or
// gaussianSigmas, gridsUpdateFrequency equal to or larger than newHillFrequency, well-tempered,
// keepHills, expandBoundaries, useGrids off; 1-3 run segments, optionally with stop/resume
// (rebinGrids).  Oracle: an executable model of the statement, fed with the values Colvars reports:
// every step, bias energy and force on each variable; after every segment, the tabulated grid.
#include "simrun.h"
#include "scenario.h"
#include "models/meta.h"

#include <cmath>
#include <memory>

using namespace sim;

namespace {

double round3(double v) {
  if (v == 0) return 0;
  double mag = std::pow(10.0, std::floor(std::log10(std::fabs(v))) - 2);
  return std::round(v / mag) * mag;
}

J gen(uint64_t seed, bool thorough) {
  Rng r(seed, 5);
  EngineCfg ec;
  ec.natoms = (int)r.range(8, 14);
  ec.data_seed = r.next() >> 12; ec.noise_seed = r.next() >> 12;
  ec.dt = 1.0; ec.temperature = 300.0; ec.forces_late = r.chance(0.5);
  ec.traj_amp = r.uniform(0.5, 1.4);
  ec.binary_state = r.chance(0.3);
  long T = r.range(10, thorough ? 80 : 36);
  TrajModel m; m.build(ec.data_seed, ec.natoms, ec.traj_amp, ec.force_amp, false);
  int ncv = r.chance(0.65) ? 1 : 2;
  bool use_grids = r.chance(0.85);
  // a share of runs aims at a rare conjunction: two variables, only one of which expands its boundaries, slow grid updates
  // (hills still untabulated when the grid is expanded), integer hillWidth, and excursions of the other variable beyond the grid
  bool focus_expand = r.chance(0.15);
  if (focus_expand) { ncv = 2; use_grids = true; }
  std::vector<CvSpec> cvs;
  static const char *kinds[] = {"distance", "distanceZ", "dihedral", "angle", "distanceXY"};
  std::string sig;
  J periodic = J::arr(), sigmas = J::arr();
  bool expand = use_grids && r.chance(0.2);
  bool keep = use_grids && r.chance(0.25);
  bool rebin = use_grids && r.chance(0.2);
  // rebinning from the grids of a state (no kept hills) onto the configured boundaries cannot hold what an expanded grid held:
  // the statement covers rebinning from kept hills, so expansion and rebinning are combined only with keepHills
  if (rebin && !keep) expand = false;
  if (focus_expand) { rebin = false; }
  bool use_hill_width = r.chance(0.5);
  // integer hillWidth: the library's boundary buffer of 3*floor(hillWidth)+1 bins then covers the reach of a hill
  bool hw_int = r.chance(0.5) || focus_expand;
  if (focus_expand) { use_hill_width = true; expand = true; }
  double hill_width = hw_int ? (double)r.range(1, 3) : round3(r.uniform(0.8, 3.2));
  for (int i = 0; i < ncv; i++) {
    CvSpec cv = make_cv(r, ec.natoms, kinds[r.below(5)], i ? "two" : "one");
    int nb = (int)r.range(5, ncv == 1 ? 18 : 9);
    double cover = r.chance(0.5) ? r.uniform(0.5, 0.9) : r.uniform(1.1, 1.5);
    if (focus_expand) { cover = r.uniform(0.45, 0.8); while (cv.periodic()) cv = make_cv(r, ec.natoms, kinds[r.below(5)], i ? "two" : "one"); }
    place_grid(cv, m, T, r, nb, cover);
    if (!cv.periodic()) {
      // a boundary the trajectory never reaches may be declared hard (the library then keeps no hills for evaluation beyond it);
      // the other side stays soft and is crossed as before
      double lo, hi; cv_range(cv, m, T, lo, hi);
      if (cv.upper > hi + 1e-6 && r.chance(0.4)) cv.extra += "  hardUpperBoundary on\n";
      if (cv.lower < lo - 1e-6 && r.chance(0.4)) cv.extra += "  hardLowerBoundary on\n";
    }
    if (focus_expand) cv.expand = (i == 0);
    else if (expand && !cv.periodic() && r.chance(0.7)) cv.expand = true;
    cvs.push_back(cv);
    periodic.push(J(cv.periodic()));
    double sg = use_hill_width ? cv.width * hill_width / 2.0 : round3(cv.width * r.uniform(0.5, 2.0));
    sigmas.push(J(sg));
    sig += (i ? "+" : "") + cv.kind;
  }
  int nh = (int)r.range(1, 6);
  int gf = (r.chance(0.6) && !focus_expand) ? nh : nh * (int)r.range(2, 4) + (r.chance(0.3) ? 1 : 0);
  double W = round3(r.uniform(0.05, 1.0));
  bool wt = r.chance(0.3);
  double bt = round3(r.uniform(300, 3000));
  std::string conf = "colvarsTrajFrequency 1\ncolvarsRestartFrequency 0\nsmp off\n";
  for (auto &c : cvs) conf += c.config();
  conf += "metadynamics {\n  name mtd\n  colvars " + join_names(cvs) + "\n  hillWeight " + num(W) + "\n  newHillFrequency " + std::to_string(nh) + "\n";
  if (use_hill_width) conf += "  hillWidth " + num(hill_width) + "\n";
  else { conf += "  gaussianSigmas"; for (auto const &v : sigmas.a) conf += " " + num(v.as_num()); conf += "\n"; }
  if (!use_grids) conf += "  useGrids off\n";
  else if (gf != nh) conf += "  gridsUpdateFrequency " + std::to_string(gf) + "\n";
  if (wt) conf += "  wellTempered on\n  biasTemperature " + num(bt) + "\n";
  if (keep) conf += "  keepHills on\n";
  if (rebin) conf += "  rebinGrids on\n";
  conf += "}\n";
  sig += std::string("|") + (use_grids ? (gf != nh ? "grids_slow" : "grids") : "nogrids") + (wt ? ",wt" : "") + (keep ? ",keep" : "") + (expand ? ",expand" : "") + (rebin ? ",rebin" : "") + (use_hill_width ? (hw_int ? ",hwint" : ",hwfrac") : ",sig");
  J plan = J::obj();
  plan["v"] = 1; plan["property"] = "C05"; plan["seed"] = (long long)seed;
  J sc = J::obj();
  sc["template"] = sig;
  J e = J::obj(); ec.to_json(e); sc["engine"] = e;
  sc["T"] = (long long)T; sc["config"] = conf;
  J sp = J::obj();
  sp["periodic"] = periodic; sp["sigma"] = sigmas; sp["weight"] = W; sp["new_hill_freq"] = nh; sp["grids_freq"] = gf; sp["use_grids"] = use_grids;
  sp["well_tempered"] = wt; sp["bias_temperature"] = bt;
  sc["spec"] = sp;
  plan["scenario"] = sc;
  J ops = J::arr();
  int nseg = (int)r.range(1, 3);
  long cur = 0;
  for (int s = 0; s < nseg && cur < T; s++) {
    long n = s == nseg - 1 ? T - cur : r.range(1, std::max(1L, T - cur - 1));
    J op = J::obj(); op["w"] = 0; op["op"] = "run"; op["n"] = (long long)n; op["end"] = "graceful"; ops.push(op);
    cur += n;
    if (s < nseg - 1 && r.chance(keep && rebin ? 0.9 : 0.5)) {
      J rs = J::obj(); rs["w"] = 0; rs["op"] = "resume";
      // rebinning from kept hills onto ANOTHER grid: the resumed job moves the lower boundary by a non-integer number of bins and
      // extends the upper one (same width, so that a hillWidth-based sigma stays what it was)
      if (keep && rebin && !expand && r.chance(0.7)) { rs["shift_lo"] = (double)r.range(0, 2) + 0.37; rs["shift_hi"] = (double)r.range(0, 2) + 0.63; sig += "G"; }
      ops.push(rs);
    }
  }
  plan["ops"] = ops;
  return plan;
}

bool grid_geom(colvarbias_meta *b, model::GridGeom &g) {
  colvar_grid_scalar *he = colvars_verif_access::meta_energy_grid(b);
  if (!he) return false;
  size_t nd = he->lower_boundaries.size();
  g.lower.resize(nd); g.width.resize(nd); g.n.resize(nd); g.periodic.resize(nd);
  for (size_t i = 0; i < nd; i++) {
    g.lower[i] = he->lower_boundaries[i].real_value; g.width[i] = he->widths[i]; g.n[i] = he->number_of_points((int)i); g.periodic[i] = he->periodic[i];
  }
  return true;
}

RunResult run(J const &plan) {
  RunResult res;
  EngineCfg ec; std::string config; long T;
  scenario_from_json(plan.at("scenario"), ec, config, T);
  J const &spj = plan.at("scenario").at("spec");
  model::MetaSpec sp;
  for (auto const &v : spj.at("periodic").a) sp.periodic.push_back(v.as_bool());
  for (auto const &v : spj.at("sigma").a) sp.sigma.push_back(v.as_num());
  sp.weight = spj.at("weight").as_num(); sp.new_hill_freq = (int)spj.at("new_hill_freq").as_int(1); sp.grids_freq = (int)spj.at("grids_freq").as_int(1);
  sp.use_grids = spj.at("use_grids").as_bool(true); sp.well_tempered = spj.at("well_tempered").as_bool(); sp.bias_temperature = spj.at("bias_temperature").as_num(300);
  model::MetaModel M(sp);
  size_t ncv = sp.sigma.size();
  SimRun sim(1);
  uint64_t fp = 1469598103934665603ULL;
  std::unique_ptr<Engine> e(new Engine(ec));
  if (e->configure(config) != COLVARS_OK || cvm::get_error()) { res.counters["probe.invalid_config"]++; res.detail = e->last_error(); sim.finish(res); return res; }
  long cur = 0; int nres = 0, nseg = 0; std::string kinds;
  long deposited = 0, outside_steps = 0, outside_deposits = 0, pending_steps = 0, expansions = 0, outside_after_expansion = 0;
  long last_grid_points = -1;
  std::set<long> seen_steps;
  auto install = [&]() {
    Engine *ep = e.get();
    ep->after_step = [&, ep](long step) {
      if (res.violation || ep->colvars->biases.empty()) return;
      colvarbias_meta *b = dynamic_cast<colvarbias_meta *>(ep->colvars->biases[0]);
      if (!b) return;
      std::vector<double> x;
      for (colvar *cv : *ep->colvars->variables()) x.push_back(cv->value().real_value);
      model::GridGeom g; bool have_g = sp.use_grids && grid_geom(b, g);
      if (have_g) { long np = 1; for (int q : g.n) np *= q; if (last_grid_points >= 0 && np != last_grid_points) expansions++; last_grid_points = np; }
      bool eligible = cvm::step_relative() > 0 && !ep->simulation_continuing();
      std::vector<double> f; bool dep = false;
      double em = M.step(step, x, eligible, have_g ? &g : nullptr, f, &dep);
      std::vector<double> centre;
      bool inside = have_g && M.bin_centre(g, x, centre);
      if (dep) { deposited++; if (sp.use_grids && !inside) outside_deposits++; }
      if (sp.use_grids && !inside) { outside_steps++; if (expansions > 0) outside_after_expansion++; }
      bool pending = false; for (auto const &h : M.hills) if (!h.tabulated) pending = true;
      if (pending) pending_steps++;
      double el = b->get_energy();
      double tol = (double)M.hills.size() * sp.weight * 1.1e-5 + 1e-9 * (1 + std::fabs(em));
      std::string where = std::string(sp.use_grids ? (inside ? "on_grid" : "off_grid") : "no_grid") + (pending ? "/pending" : "") + (nres ? "/after_resume" : "");
      if (std::fabs(el - em) > tol) { res.fail("meta_model", "energy/" + where, "step " + std::to_string(step) + ": bias energy " + fmt_double(el) + ", model " + fmt_double(em) + " (" + std::to_string(M.hills.size()) + " hills, tolerance " + fmt_double(tol) + ")"); return; }
      // force on each variable (gradient of a truncated hill: the same bound times 1/sigma per unit distance ~ 5/sigma)
      size_t i = 0;
      for (colvar *cv : *ep->colvars->variables()) {
        if (i >= ncv) break;
        double fl = cv->applied_force().real_value;
        double ftol = (double)M.hills.size() * sp.weight * 6e-5 / sp.sigma[i] + 1e-9 * (1 + std::fabs(f[i]));
        if (std::fabs(fl - f[i]) > ftol) { res.fail("meta_model", "force/" + where, "step " + std::to_string(step) + ": force on variable " + std::to_string(i) + " " + fmt_double(fl) + ", model " + fmt_double(f[i])); return; }
        i++;
      }
      fp = fnv_dbl(el, fp);
      seen_steps.insert(step);
    };
  };
  install();
  auto check_grid = [&]() {
    // a state write tabulates the pending hills (side effect of saving); compare the tabulated grid with the model
    if (res.violation || !sp.use_grids || e->colvars->biases.empty()) return;
    colvarbias_meta *b = dynamic_cast<colvarbias_meta *>(e->colvars->biases[0]);
    if (!b) return;
    M.tabulate_all();
    colvar_grid_scalar *he = colvars_verif_access::meta_energy_grid(b);
    if (!he) return;
    double tol = (double)M.hills.size() * sp.weight * 1.1e-5 + 1e-9;
    for (std::vector<int> ix = he->new_index(); he->index_ok(ix); he->incr(ix)) {
      std::vector<double> c(ncv);
      for (size_t i = 0; i < ncv; i++) c[i] = he->bin_to_value_scalar(ix[i], (int)i).real_value;
      double em = 0; for (auto const &h : M.hills) em += M.hill(h, c, nullptr);
      double el = he->value(ix);
      if (std::fabs(el - em) > tol) { res.fail("meta_model", std::string("grid_after_segment") + (nres ? "/after_resume" : ""), "bin centre " + fmt_double(c[0]) + ": tabulated " + fmt_double(el) + ", model " + fmt_double(em)); return; }
    }
    res.counters["probe.grid_checks"]++;
  };
  for (auto const &op : plan.at("ops").a) {
    if (res.violation) break;
    std::string k = op.at("op").as_str();
    if (k == "run") {
      long n = std::min((long)op.at("n").as_int(1), T - cur);
      if (n < 0) continue;
      nseg++;
      e->run((int)n, true);
      cur += n; kinds += "r";
      check_grid();
    } else if (k == "resume" && nseg > 0) {
      add_steps(res, *e);
      e.reset();
      e.reset(new Engine(ec));
      if (op.has("shift_lo")) {
        // new boundaries for every gridded variable
        double slo = op.at("shift_lo").as_num(), shi = op.at("shift_hi").as_num(); size_t p = 0; int moved = 0;
        while ((p = config.find("colvar {", p)) != std::string::npos) {
          size_t end = config.find("\n}\n", p); if (end == std::string::npos) break;
          size_t pw = config.find("  width ", p), pl = config.find("  lowerBoundary ", p), pu = config.find("  upperBoundary ", p);
          if (pw < end && pl < end && pu < end && config.compare(p, end - p, "") != 0 && config.substr(p, end - p).find("dihedral") == std::string::npos) {
            double w = strtod(config.c_str() + pw + 8, nullptr), lo = strtod(config.c_str() + pl + 16, nullptr), up = strtod(config.c_str() + pu + 16, nullptr);
            char bl[64], bu[64]; snprintf(bl, sizeof bl, "%.12g", lo - slo * w); snprintf(bu, sizeof bu, "%.12g", up + shi * w);
            // (replace the later line first so that the earlier offset stays valid)
            if (pl < pu) { config.replace(pu + 16, config.find('\n', pu) - pu - 16, bu); config.replace(pl + 16, config.find('\n', pl) - pl - 16, bl); }
            else { config.replace(pl + 16, config.find('\n', pl) - pl - 16, bl); config.replace(pu + 16, config.find('\n', pu) - pu - 16, bu); }
            moved++;
          }
          p = config.find("\n}\n", p); if (p == std::string::npos) break; p += 3;
        }
        if (moved) res.counters["fault.grid_moved_at_resume"]++;
      }
      e->configure(config);
      cvm::clear_error();
      if (e->load_state("/simfs/w0/out") != COLVARS_OK || cvm::get_error()) { res.fail("meta_model", "load_error", e->last_error()); break; }
      install();
      nres++; kinds += "R"; nseg = 0;
    }
  }
  add_steps(res, *e);
  e.reset();
  res.counters["probe.hills_deposited"] += deposited;
  res.counters["probe.steps_outside_grid"] += outside_steps;
  res.counters["probe.hills_deposited_outside_grid"] += outside_deposits;
  res.counters["probe.steps_with_untabulated_hills"] += pending_steps;
  res.counters["probe.resumes"] += nres; res.counters["fault.stop_and_resume"] += nres;
  res.counters["probe.grid_expansions"] += expansions;
  res.counters["probe.steps_outside_grid_after_expansion"] += outside_after_expansion;
  res.nontrivial = deposited > 0;
  res.class_hash = fnv_str(kinds, fnv_str(plan.at("scenario").at("template").as_str(), fnv_u64((uint64_t)(outside_steps > 0), 5)));
  res.fingerprint = fp;
  if (res.violation) {
    // flags of the scenario (after the '|'), '+'-separated
    std::string t = plan.at("scenario").at("template").as_str();
    size_t p = t.find('|');
    std::string fl = p == std::string::npos ? t : t.substr(p + 1);
    for (char &c : fl) if (c == ',') c = '+';
    res.features = fl;
  }
  sim.finish(res);
  return res;
}

Property make() {
  Property p;
  p.id = "C05"; p.level = "exploration"; p.design_ref = "DESIGN.md §7 C05";
  p.rule = "plan = metadynamics on 1-2 scalar variables (periodic included) x grid covering 50-150% of the sampled range (excursions, hills deposited outside) x hillWidth or "
           "gaussianSigmas x newHillFrequency 1-6 x gridsUpdateFrequency equal or larger x well-tempered x keepHills x expandBoundaries x rebinGrids x useGrids off, over 10-80 "
           "steps in 1-3 segments with optional stop/resume; non-trivial = at least one hill deposited; distinct = hash of (template, segmentation, whether the trajectory left the grid)";
  p.rule += " Later additions: with keepHills and rebinGrids 70% of the resumes move the grid boundaries by a non-integer number of bins.";
  p.rule += " Fifth round: boundaries the trajectory never reaches are declared hard with probability 0.4.";
  p.assumptions = {"the model takes the values Colvars reports and the current grid geometry (boundaries, widths, sizes) as inputs",
                   "tolerance = number of hills x hillWeight x 1.1e-5 (the documented truncation of a hill below exp(-11.5)) plus round-off",
                   "non-scalar variables (vectors, quaternions) are not covered"};
  p.real_components = {"colvarbias_meta (update_bias, add_hill, project_hills, calc_energy/forces, update_grid_params, state I/O)", "colvar_grid_scalar/gradient"};
  p.stub_components = {"MD engine (kinematic)", "file system (sim::FS)"};
  p.gen = gen; p.run = run;
  p.quick_runs = 15000; p.thorough_runs = 400000; p.quick_secs = 70; p.thorough_secs = 900;
  return p;
}
Registrar reg(make());

}  // namespace
