// C14 — multiple-walker sharing combines every walker's data exactly once.
//
// mode "abf":  2-4 walkers run shared ABF over the simulated MPI-like transport (sim::Net); the
//              seeded scheduler interleaves their steps and exchange messages; whole-job stop and
//              resume at arbitrary steps.  Reference: each walker's own ("solo") accumulation, from
//              a separate single-walker run of the same trajectory with sharing off.
//              Oracle after every step of every walker:
//                global grids  = sum over walkers of their solo data up to the last share
//                                + this walker's own samples since then        (counts exact)
//                local grids   = this walker's solo data up to the last share
// mode "meta": 2-4 walkers run multiple-walker metadynamics through files on the shared simulated
//              disk, each at its own speed; readers are scheduled between a writer's file calls,
//              writes are delivered in small chunks (torn records), walkers are killed mid-write
//              and resumed, peers are absent.  Reference: each walker's hill list from the model
//              (deposition schedule x recorded variable values).
//              Safety (always): every mirror bias held by A for peer B equals the sum of B's hills
//              with step <= s for ONE cut s; A's own grid equals the sum of A's own hills.
//              Liveness: after the last fault and two more exchange periods of every walker,
//              every mirror is complete up to what the peer had flushed.
#include "walkers.h"
#include "scenario.h"
#include "colvarbias_meta.h"
#include "colvargrid.h"

#include <cmath>
#include <memory>
#include <set>
#include <map>
#include <functional>
#include <sstream>

using namespace sim;

// read-only view into metadynamics internals (guarded friend)
struct colvars_verif_access_meta : public colvars_verif_access {};

namespace {

// ------------------------------------------------------------------------------------------------ generation
J gen_meta(uint64_t seed, bool thorough, Rng &r, int nw) {
  J plan = J::obj();
  plan["v"] = 1; plan["property"] = "C14"; plan["seed"] = (long long)seed;
  EngineCfg ec;
  ec.natoms = (int)r.range(8, 14);
  ec.data_seed = r.next() >> 12; ec.noise_seed = r.next() >> 12;
  ec.dt = 1.0; ec.temperature = 300.0; ec.forces_late = false;
  ec.traj_amp = r.uniform(0.5, 1.3);
  ec.n_walkers = 1;             // no MPI-like transport: the walkers only share a disk
  ec.out_prefix = "out";        // relative: resolved against each walker's own directory
  long T = r.range(10, thorough ? 60 : 34);
  int ncv = r.chance(0.75) ? 1 : 2;
  std::vector<CvSpec> cvs;
  std::string sig;
  J sigmas = J::arr();
  for (int i = 0; i < ncv; i++) {
    CvSpec cv = make_cv(r, ec.natoms, r.chance(0.7) ? "distance" : "dihedral", i ? "two" : "one");
    double lo = 1e300, hi = -1e300;
    for (int w = 0; w < nw; w++) {
      TrajModel m; m.build(ec.data_seed + (uint64_t)w * 7919, ec.natoms, ec.traj_amp, ec.force_amp, false);
      double a, b; cv_range(cv, m, T, a, b); lo = std::min(lo, a); hi = std::max(hi, b);
    }
    int nb = (int)r.range(6, ncv == 1 ? 16 : 9);
    if (cv.kind == "dihedral") { cv.width = 360.0 / nb; cv.lower = -180; cv.upper = 180; cv.has_bounds = true; }
    else {
      // the grid covers the whole sampled range with a margin: hills outside the grid are the business of C05
      double w = (hi - lo) * 1.5 / nb; double mag = std::pow(10.0, std::floor(std::log10(w)) - 2); w = std::max(mag, std::round(w / mag) * mag);
      double lower = std::floor((lo - 0.25 * (hi - lo)) / w) * w; if (lower < 0) lower = 0;
      cv.width = w; cv.lower = lower; cv.upper = lower + w * (nb + 1); cv.has_bounds = true;
    }
    cvs.push_back(cv);
    sig += (i ? "+" : "") + cv.kind;
    double sg = cv.width * r.uniform(0.6, 1.6); double mag = std::pow(10.0, std::floor(std::log10(sg)) - 2); sg = std::round(sg / mag) * mag;
    sigmas.push(J(sg));
  }
  int nh = (int)r.range(1, 4), F = (int)r.range(2, 8), rf = (int)r.range(4, 14);
  double W = std::round(r.uniform(0.05, 1.0) * 1000) / 1000;
  ec.restart_freq = rf;
  std::string cvconf;
  for (auto &c : cvs) cvconf += c.config();
  std::string sg;
  for (auto const &v : sigmas.a) sg += " " + num(v.as_num());
  // @ID@ is replaced by the walker's replica id
  std::string meta = "metadynamics {\n  name mtd\n  colvars " + join_names(cvs) + "\n  hillWeight " + num(W) + "\n  newHillFrequency " + std::to_string(nh) +
                     "\n  gaussianSigmas" + sg + "\n  multipleReplicas on\n  replicaID @ID@\n  replicasRegistry /simfs/shared/registry.txt\n  replicaUpdateFrequency " + std::to_string(F) + "\n}\n";
  J sc = J::obj();
  sc["template"] = "mw_meta:" + sig;
  sc["mode"] = "meta";
  J e = J::obj(); ec.to_json(e); sc["engine"] = e;
  sc["T"] = (long long)T; sc["walkers"] = nw;
  sc["config"] = global_config(1, rf, false) + cvconf + meta;
  sc["hill_weight"] = W; sc["new_hill_freq"] = nh; sc["update_freq"] = F; sc["sigmas"] = sigmas;
  J kinds = J::arr(); for (auto &c : cvs) kinds.push(c.kind);
  sc["cv_kinds"] = kinds;
  J cvj = J::arr();
  for (auto &c : cvs) { J o = J::obj(); o["kind"] = c.kind; J gs = J::arr(); for (auto &g : c.groups) { J ga = J::arr(); for (int id : g) ga.push(J(id)); gs.push(ga); } o["groups"] = gs; cvj.push(o); }
  sc["cvs"] = cvj;
  sc["chunk"] = (long long)(r.chance(0.6) ? r.range(9, 120) : 0);
  // a quarter of the jobs find a stale record in the registry: a walker that registered once and whose files are gone
  // (listed before everyone else: it is the first peer every walker tries to read, at every exchange)
  sc["ghost"] = r.chance(0.25);
  plan["scenario"] = sc;
  J ops = J::arr();
  for (int w = 0; w < nw; w++) {
    long mine = r.chance(0.3) ? r.range(T / 2, T) : T;    // walkers may stop early (absent peer)
    long cur = 0;
    int nseg = (int)r.range(1, 3);
    for (int k = 0; k < nseg && cur < mine; k++) {
      long n = k == nseg - 1 ? mine - cur : r.range(1, mine - cur);
      J op = J::obj(); op["w"] = w; op["op"] = "run"; op["n"] = (long long)n;
      bool kill = k < nseg - 1 && r.chance(0.5);
      op["end"] = kill ? "none" : (r.chance(0.7) ? "graceful" : "none");
      if (kill) {
        J f = J::obj(); f["k"] = r.chance(0.5) ? "crash_in" : "crash_after"; f["call"] = "write";
        f["suffix"] = r.chance(0.6) ? ".hills" : (r.chance(0.5) ? ".state.tmp" : ".colvars.state");
        f["nth"] = (long long)r.range(0, 6); f["arg"] = (long long)r.range(1, 60);
        J fl = J::arr(); fl.push(f); op["faults"] = fl;
      }
      ops.push(op);
      cur += n;
      if (k < nseg - 1) { J rs = J::obj(); rs["w"] = w; rs["op"] = "resume"; ops.push(rs); }
    }
  }
  // interleave the walkers' ops in the list (order within a walker is what matters)
  plan["ops"] = ops;
  J sched = J::arr();
  int ns = (int)r.range(20, 400);
  for (int i = 0; i < ns; i++) sched.push(J((long long)(r.chance(0.45) ? 0 : r.range(1, 5))));
  plan["sched"] = sched;
  return plan;
}

// ------------------------------------------------------------------------------------------------ multiple-walker OPES (generator)
J gen_opes(uint64_t seed, bool thorough, Rng &r, int nw) {
  J plan = J::obj();
  plan["v"] = 1; plan["property"] = "C14"; plan["seed"] = (long long)seed;
  EngineCfg ec;
  ec.natoms = (int)r.range(8, 14);
  ec.data_seed = r.next() >> 12; ec.noise_seed = r.next() >> 12;
  ec.dt = 1.0; ec.temperature = 300.0; ec.forces_late = false;
  ec.traj_amp = r.uniform(0.4, 1.0);
  long T = r.range(6, thorough ? 36 : 18);
  int ncv = (int)r.range(1, 2);
  std::vector<CvSpec> cvs; std::string sig, sg;
  static const char *kinds[] = {"distance", "distanceZ", "distanceXY", "angle"};
  for (int i = 0; i < ncv; i++) {
    CvSpec cv = make_cv(r, ec.natoms, kinds[r.below(4)], i ? "two" : "one");
    double lo = 1e300, hi = -1e300;
    for (int w = 0; w < nw; w++) { TrajModel m; m.build(ec.data_seed + (uint64_t)w * 7919, ec.natoms, ec.traj_amp, ec.force_amp, false); double a, b; cv_range(cv, m, T, a, b); lo = std::min(lo, a); hi = std::max(hi, b); }
    cv.width = std::max(1e-3, std::round((hi - lo) * 100) / 1000);
    cvs.push_back(cv); sig += (i ? "+" : "") + cv.kind;
    double s0 = std::max(1e-3, std::round((hi - lo) * r.uniform(0.08, 0.3) * 1000) / 1000);
    sg += " " + num(s0);
  }
  int pace = (int)r.range(1, 4);
  std::string cvconf; for (auto &c : cvs) cvconf += c.config();
  // fixed kernel width and no compression: the kernel list is then exactly the list of deposits, in order
  std::string opes = "opes_metad {\n  name opes\n  colvars " + join_names(cvs) + "\n  newHillFrequency " + std::to_string(pace) + "\n  barrier " + num(std::round(r.uniform(5, 30))) +
                     "\n  gaussianSigma" + sg + "\n  fixedGaussianSigma on\n  compressionThreshold 0\n  multipleReplicas on\n  sharedFreq " + std::to_string(r.range(1, 5)) +
                     (r.chance(0.3) ? "\n  explore on" : "") + (r.chance(0.3) ? "\n  neighborList on" : "") + "\n}\n";
  J sc = J::obj();
  sc["template"] = "mw_opes:" + sig; sc["mode"] = "opes";
  J e = J::obj(); ec.to_json(e); sc["engine"] = e;
  sc["T"] = (long long)T; sc["walkers"] = nw; sc["pace"] = pace;
  sc["config"] = global_config(1, (int)r.range(0, 6), false) + cvconf + opes;
  J cvj = J::arr();
  for (auto &c : cvs) { J o = J::obj(); o["kind"] = c.kind; J gs = J::arr(); for (auto &g : c.groups) { J ga = J::arr(); for (int id : g) ga.push(J(id)); gs.push(ga); } o["groups"] = gs; cvj.push(o); }
  sc["cvs"] = cvj;
  plan["scenario"] = sc;
  // the whole job runs in lock-step (every deposit is a collective operation); it may stop and restart together once
  J ops = J::arr();
  // (no stop/restart here: an OPES state holds the snapshot of the last restart-frequency step, not the current kernels - recorded finding
  // C03-OPES-STALE-SNAPSHOT - so what a restarted job should hold is C03's subject)
  long cut = 0;
  for (int w = 0; w < nw; w++) {
    if (cut) { J a = J::obj(); a["w"] = w; a["op"] = "run"; a["n"] = (long long)cut; a["end"] = "graceful"; ops.push(a); J rs = J::obj(); rs["w"] = w; rs["op"] = "resume"; ops.push(rs); }
    J b = J::obj(); b["w"] = w; b["op"] = "run"; b["n"] = (long long)(T - cut); b["end"] = "graceful"; ops.push(b);
  }
  plan["ops"] = ops;
  J sched = J::arr();
  int ns = (int)r.range(20, 400);
  for (int i = 0; i < ns; i++) sched.push(J((long long)(r.chance(0.45) ? 0 : r.range(1, 5))));
  plan["sched"] = sched;
  return plan;
}

J gen(uint64_t seed, bool thorough) {
  Rng r(seed, 14);
  J plan = J::obj();
  plan["v"] = 1; plan["property"] = "C14"; plan["seed"] = (long long)seed;
  double um = r.unit();
  std::string mode = um < 0.42 ? "abf" : um < 0.84 ? "meta" : "opes";
  int nw = (int)r.range(2, mode == "meta" && !thorough ? 3 : 4);
  if (mode == "meta") return gen_meta(seed, thorough, r, nw);
  if (mode == "opes") return gen_opes(seed, thorough, r, nw);
  EngineCfg ec;
  ec.natoms = (int)r.range(8, 14);
  ec.data_seed = r.next() >> 12; ec.noise_seed = r.next() >> 12;
  ec.dt = 1.0; ec.temperature = r.chance(0.3) ? 0.0 : 300.0;
  ec.forces_late = r.chance(0.5);
  ec.traj_amp = r.uniform(0.5, 1.3); ec.force_amp = r.uniform(0.5, 3.0);
  ec.n_walkers = nw;
  long T = r.range(8, thorough ? 60 : 30);
  // variables shared by all walkers: ranges over all walkers' trajectories
  int ncv = r.chance(0.7) ? 1 : 2;
  // with two (generally non-orthogonal) variables and total forces delivered one step late, the force applied along one
  // variable leaks into the sample of the other: the solo run is then not a valid reference (ABF's documented
  // orthogonality requirement), so two-variable runs use same-step forces
  if (ncv == 2) ec.forces_late = false;
  std::vector<CvSpec> cvs;
  static const char *kinds[] = {"distance", "distanceZ", "dihedral", "angle"};
  std::string sig;
  for (int i = 0; i < ncv; i++) {
    CvSpec cv = make_cv(r, ec.natoms, kinds[r.below(4)], i ? "two" : "one");
    double lo = 1e300, hi = -1e300;
    for (int w = 0; w < nw; w++) {
      TrajModel m; m.build(ec.data_seed + (uint64_t)w * 7919, ec.natoms, ec.traj_amp, ec.force_amp, false);
      double a, b; cv_range(cv, m, T, a, b); lo = std::min(lo, a); hi = std::max(hi, b);
    }
    if (cv.kind == "dihedral") { int nb = (int)r.range(4, 9); cv.width = 360.0 / nb; cv.lower = -180; cv.upper = 180; cv.has_bounds = true; }
    else {
      int nb = (int)r.range(4, 10);
      double cover = r.chance(0.4) ? r.uniform(0.6, 0.9) : r.uniform(1.05, 1.3);
      double w = (hi - lo) * cover / nb; double mag = std::pow(10.0, std::floor(std::log10(w)) - 2); w = std::max(mag, std::round(w / mag) * mag);
      double lower = std::floor((0.5 * (lo + hi) - 0.5 * w * nb) / w) * w;
      if ((cv.kind == "distance" || cv.kind == "angle") && lower < 0) lower = 0;
      cv.width = w; cv.lower = lower; cv.upper = lower + w * nb; cv.has_bounds = true;
      if (cv.kind == "angle" && cv.upper > 180) { cv.upper = 180; cv.lower = std::max(0.0, 180 - w * nb); }
    }
    cvs.push_back(cv);
    sig += (i ? "+" : "") + cv.kind;
  }
  int share = (int)r.range(2, 7);
  int outf = share * (int)r.range(1, 3);
  std::string cvconf;
  for (auto &c : cvs) cvconf += c.config();
  std::string abf = "abf {\n  name sabf\n  colvars " + join_names(cvs) + "\n  fullSamples " + std::to_string(r.range(2, 10)) + "\n  outputFreq " + std::to_string(outf) + "\n";
  if (r.chance(0.3)) abf += "  hideJacobian on\n";
  if (r.chance(0.2)) abf += "  applyBias off\n";
  std::string shared = "  shared on\n  sharedFreq " + std::to_string(share) + "\n";
  int rf = outf * (int)r.range(1, 2);
  std::string head = global_config(1, rf, false);
  J sc = J::obj();
  sc["template"] = "shared_abf:" + sig;
  sc["mode"] = mode;
  J e = J::obj(); ec.to_json(e); sc["engine"] = e;
  sc["T"] = (long long)T; sc["walkers"] = nw; sc["share_freq"] = share;
  sc["config"] = head + cvconf + abf + shared + "}\n";
  sc["config_solo"] = head + cvconf + abf + "}\n";
  plan["scenario"] = sc;
  // ops: the whole job is cut at the same steps on every walker (MPI jobs stop and restart together)
  J ops = J::arr();
  int nstops = r.chance(0.5) ? 0 : (int)r.range(1, 2);
  std::vector<long> cuts;
  for (int s = 0; s < nstops; s++) cuts.push_back(r.chance(0.4) ? share * r.range(1, std::max(1L, T / share)) : r.range(1, T - 1));
  std::sort(cuts.begin(), cuts.end());
  cuts.erase(std::unique(cuts.begin(), cuts.end()), cuts.end());
  while (!cuts.empty() && cuts.back() >= T) cuts.pop_back();
  long cur = 0;
  // job-level ops (w = -1): applied to every walker, so that shrinking cannot unbalance the job
  for (size_t s = 0; s <= cuts.size(); s++) {
    long next = s < cuts.size() ? cuts[s] : T;
    { J op = J::obj(); op["w"] = -1; op["op"] = "run"; op["n"] = (long long)(next - cur); op["end"] = "graceful"; ops.push(op); }
    if (s < cuts.size()) { J op = J::obj(); op["w"] = -1; op["op"] = "resume"; ops.push(op); }
    cur = next;
  }
  plan["ops"] = ops;
  J sched = J::arr();
  int ns = (int)r.range(0, 200);
  for (int i = 0; i < ns; i++) sched.push(J((long long)(r.chance(0.5) ? 0 : r.range(1, 5))));
  plan["sched"] = sched;
  return plan;
}

// ------------------------------------------------------------------------------------------------ shared ABF
struct Grids { std::vector<double> count, sum; };

// the state holds counts and per-bin MEAN gradients (sum / count): turn the means back into sums
bool read_grids(std::string const &state, std::string const &cnt_key, std::string const &grad_key, Grids &g) {
  if (!state_array(state, "sabf", cnt_key, g.count) || !state_array(state, "sabf", grad_key, g.sum)) return false;
  if (g.count.empty() || g.sum.size() % g.count.size()) return false;
  size_t mult = g.sum.size() / g.count.size();
  for (size_t i = 0; i < g.sum.size(); i++) g.sum[i] *= g.count[i / mult];
  return true;
}

void run_abf(J const &plan, RunResult &res) {
  J const &sc = plan.at("scenario");
  EngineCfg base; base.from_json(sc.at("engine"));
  int nw = (int)sc.at("walkers").as_int(2);
  long T = (long)sc.at("T").as_int(10);
  std::string config = sc.at("config").as_str(), solo_cfg = sc.at("config_solo").as_str();
  std::vector<int> sched;
  for (auto const &v : plan.at("sched").a) sched.push_back((int)v.as_int());
  uint64_t fp = 1469598103934665603ULL;

  // ---- solo references: cumulative (count, sum) after every step, per walker
  std::vector<std::vector<Grids>> solo((size_t)nw);
  {
    SimRun sim(1);
    for (int w = 0; w < nw; w++) {
      EngineCfg ec = base; ec.walker = 0; ec.n_walkers = 1; ec.data_seed = base.data_seed + (uint64_t)w * 7919; ec.out_prefix = "/simfs/w0/solo" + std::to_string(w);
      std::unique_ptr<Engine> e(new Engine(ec));
      if (e->configure(solo_cfg) != COLVARS_OK || cvm::get_error()) { res.counters["probe.invalid_config"]++; res.detail = e->last_error(); return; }
      e->record = false;
      std::vector<Grids> &sg = solo[(size_t)w];
      Engine *ep = e.get();
      int ww = w;
      e->after_step = [&sg, ep, ww](long st) {
        Grids g; read_grids(ep->save_state_string(), "samples", "gradient", g); sg.push_back(g);
        if (getenv("CVSIM_DEBUG")) { colvar *cv = (*ep->colvars->variables())[0]; fprintf(stderr, "solo w%d step %ld x %.12g ft %.12g fa %.12g\n", ww, st, cv->value().real_value, cv->total_force().real_value, cv->applied_force().real_value); }
      };
      e->run((int)T, false);
      add_steps(res, *e);
      for (auto &g : sg) for (double v : g.count) fp = fnv_dbl(v, fp);
    }
    sim.finish(res);
  }
  for (auto &sg : solo) if (sg.size() != (size_t)T + 1 || sg[0].count.empty()) { res.counters["probe.solo_failed"]++; return; }
  size_t ncount = solo[0][0].count.size(), nsum = solo[0][0].sum.size();

  // ---- the shared run
  SimRun sim(nw, sched, 1, 4000000);
  std::vector<Walker> ws((size_t)nw);
  std::vector<long> last_share((size_t)nw, -1);     // S: step of the last share seen in the walker's log
  std::vector<uint64_t> log_seen((size_t)nw, 0);
  long shares = 0;
  auto zero = [&](Grids &g) { g.count.assign(ncount, 0); g.sum.assign(nsum, 0); };
  auto solo_at = [&](int w, long step) -> Grids { Grids g; if (step < 0) { zero(g); return g; } return solo[(size_t)w][(size_t)std::min(step, T)]; };
  for (int w = 0; w < nw; w++) {
    Walker &W = ws[(size_t)w];
    W.w = w; W.ec = base; W.ec.walker = w; W.ec.n_walkers = nw; W.ec.data_seed = base.data_seed + (uint64_t)w * 7919; W.config = config;
    {
      // a resume is only meaningful after a run; the total number of steps is capped at T
      long done = 0; bool ran = false;
      for (auto const &op : plan.at("ops").a) {
        std::string k = op.at("op").as_str();
        if (k == "run") { long n = std::min((long)op.at("n").as_int(1), T - done); if (n < 0) continue; J o = op; o["n"] = (long long)n; W.ops.push_back(o); done += n; ran = true; }
        else if (k == "resume" && ran) W.ops.push_back(op);
      }
    }
    W.on_new_instance = [&](Walker &X) { X.e->record = false; log_seen[(size_t)X.w] = X.e->n_log; };
    W.after_step = [&](Walker &X, long step) {
      if (res.violation) return;
      // did this walker share during this step?
      Engine *e = X.e;
      for (auto const &l : e->log_lines) {
        size_t p = l.find("shared ABF: Sharing gradient and samples among replicas at step ");
        if (p != std::string::npos) { long s = atol(l.c_str() + p + 64); if (s > last_share[(size_t)X.w]) { last_share[(size_t)X.w] = s; shares++; } }
      }
      if (getenv("CVSIM_DEBUG")) { colvar *cv = (*e->colvars->variables())[0]; fprintf(stderr, "shared w%d step %ld x %.12g ft %.12g fa %.12g\n", X.w, step, cv->value().real_value, cv->total_force().real_value, cv->applied_force().real_value); }
      std::string st = e->save_state_string();
      Grids g, l;
      if (!read_grids(st, "samples", "gradient", g)) { res.fail("harness", "state_parse", "cannot parse ABF state"); return; }
      bool has_local = read_grids(st, "local_samples", "local_gradient", l);
      long S = last_share[(size_t)X.w];
      // expectation
      Grids exp_g, exp_l; zero(exp_g); zero(exp_l);
      if (S >= 0) {
        for (int v = 0; v < nw; v++) { Grids a = solo_at(v, S - 1); for (size_t i = 0; i < ncount; i++) exp_g.count[i] += a.count[i]; for (size_t i = 0; i < nsum; i++) exp_g.sum[i] += a.sum[i]; }
        exp_l = solo_at(X.w, S - 1);
      }
      Grids own_now = solo_at(X.w, step), own_then = solo_at(X.w, S - 1);
      for (size_t i = 0; i < ncount; i++) exp_g.count[i] += own_now.count[i] - own_then.count[i];
      for (size_t i = 0; i < nsum; i++) exp_g.sum[i] += own_now.sum[i] - own_then.sum[i];
      std::string where = std::string(X.resumes ? "after_resume" : "first_leg") + (S >= 0 ? "/after_share" : "/before_share");
      for (size_t i = 0; i < ncount && !res.violation; i++)
        if (g.count[i] != exp_g.count[i])
          res.fail("abf_union", "global_count/" + where, "walker " + std::to_string(X.w) + " step " + std::to_string(step) + " (last share " + std::to_string(S) + ") bin " + std::to_string(i) + ": count " + fmt_double(g.count[i]) + " expected " + fmt_double(exp_g.count[i]));
      double scale = 0; for (double v : exp_g.sum) scale = std::max(scale, std::fabs(v));
      for (size_t i = 0; i < nsum && !res.violation; i++)
        if (std::fabs(g.sum[i] - exp_g.sum[i]) > 1e-7 * (1e-3 + scale))
          res.fail("abf_union", "global_gradient/" + where, "walker " + std::to_string(X.w) + " step " + std::to_string(step) + " (last share " + std::to_string(S) + ") element " + std::to_string(i) + ": " + fmt_double(g.sum[i]) + " expected " + fmt_double(exp_g.sum[i]));
      if (has_local && S >= 0) {
        for (size_t i = 0; i < ncount && !res.violation; i++)
          if (l.count[i] != exp_l.count[i])
            res.fail("abf_union", "local_count/" + where, "walker " + std::to_string(X.w) + " step " + std::to_string(step) + " (last share " + std::to_string(S) + ") bin " + std::to_string(i) + ": local count " + fmt_double(l.count[i]) + " expected " + fmt_double(exp_l.count[i]));
      }
      for (double v : g.count) fp = fnv_dbl(v, fp);
    };
  }
  walkers_reset(nw);
  run_walkers(ws);
  for (auto &W : ws) {
    if (!W.fail.empty() && !res.violation) { res.counters["probe.walker_failed"]++; res.detail = W.fail; }
    if (W.e) add_steps(res, *W.e);
    for (auto *a : W.abandoned) add_steps(res, *a);
    res.counters["probe.resumes"] += W.resumes;
  }
  SchedStats const &ss = sched_stats();
  if (ss.deadlock) { res.violation = false; res.fail("deadlock", "shared_abf", "no walker could make progress"); }
  res.counters["probe.shares"] += shares;
  res.counters["net.messages"] += (long long)net().sent;
  res.counters["net.barriers"] += (long long)net().barriers;
  res.nontrivial = shares > 0;
  uint64_t sh = 5;
  for (size_t i = 0; i < sched.size() && i < 16; i++) sh = fnv_u64((uint64_t)sched[i], sh);
  res.class_hash = fnv_str(sc.at("template").as_str(), fnv_u64((uint64_t)nw, fnv_u64((uint64_t)ws[0].resumes, sh)));
  res.fingerprint = fp;
  sim.finish(res);
}


// ------------------------------------------------------------------------------------------------ multiple-walker metadynamics
struct MHill { long step; std::vector<double> c; };

struct MetaCtx {
  std::vector<std::string> kinds; std::vector<double> sig; double W = 0; int nh = 1, F = 1;
  double hill_at(MHill const &h, std::vector<double> const &x) const {
    double a = 0;
    for (size_t i = 0; i < x.size(); i++) {
      double d = x[i] - h.c[i];
      if (kinds[i] == "dihedral") { d = std::fmod(d, 360.0); if (d > 180) d -= 360; if (d < -180) d += 360; }
      a += d * d / (sig[i] * sig[i]);
    }
    if (a > 23.0) return 0.0;     // the library's documented truncation
    return W * std::exp(-0.5 * a);
  }
};

// the total tabulated + pending energy held by a metadynamics object, at every bin centre of its grid
bool held_energy(colvarbias_meta *b, MetaCtx const &cx, std::vector<std::vector<double>> &centres, std::vector<double> &val) {
  colvar_grid_scalar *g = colvars_verif_access::meta_energy_grid(b);
  if (!g) return false;
  centres.clear(); val.clear();
  size_t nd = cx.sig.size();
  for (std::vector<int> ix = g->new_index(); g->index_ok(ix); g->incr(ix)) {
    std::vector<double> x(nd);
    for (size_t i = 0; i < nd; i++) x[i] = g->bin_to_value_scalar(ix[i], (int)i).real_value;
    centres.push_back(x);
    val.push_back(g->value(ix));
  }
  // hills not yet tabulated
  auto &hl = colvars_verif_access::meta_hills(b);
  for (auto it = colvars_verif_access::meta_new_hills_begin(b); it != hl.end(); ++it) {
    colvarbias_meta::hill hc(*it);
    std::istringstream is(hc.output_traj());
    MHill h; double tmp; is >> h.step; h.c.resize(nd);
    for (size_t i = 0; i < nd; i++) is >> h.c[i];
    for (size_t i = 0; i < nd; i++) is >> tmp;
    double w = 0; is >> w;
    for (size_t k = 0; k < centres.size(); k++) { double e = cx.hill_at(h, centres[k]); val[k] += (cx.W > 0 ? e * (w / cx.W) : 0); }
  }
  return true;
}

void run_meta(J const &plan, RunResult &res) {
  J const &sc = plan.at("scenario");
  EngineCfg base; base.from_json(sc.at("engine"));
  int nw = (int)sc.at("walkers").as_int(2);
  long T = (long)sc.at("T").as_int(10);
  std::string config = sc.at("config").as_str();
  MetaCtx cx;
  for (auto const &k : sc.at("cv_kinds").a) cx.kinds.push_back(k.as_str());
  for (auto const &k : sc.at("sigmas").a) cx.sig.push_back(k.as_num());
  cx.W = sc.at("hill_weight").as_num(); cx.nh = (int)sc.at("new_hill_freq").as_int(1); cx.F = (int)sc.at("update_freq").as_int(1);
  std::vector<CvSpec> cvspec;
  for (auto const &o : sc.at("cvs").a) { CvSpec c; c.kind = o.at("kind").as_str(); for (auto const &g : o.at("groups").a) { std::vector<int> ids; for (auto const &id : g.a) ids.push_back((int)id.as_int()); c.groups.push_back(ids); } cvspec.push_back(c); }
  std::vector<TrajModel> traj((size_t)nw);
  for (int w = 0; w < nw; w++) traj[(size_t)w].build(base.data_seed + (uint64_t)w * 7919, base.natoms, base.traj_amp, base.force_amp, false);
  std::vector<int> sched;
  for (auto const &v : plan.at("sched").a) sched.push_back((int)v.as_int());
  uint64_t fp = 1469598103934665603ULL;
  SimRun sim(nw, sched, 1, 6000000);
  fs().chunk_exempt_suffixes = {"registry.txt"};   // appends of one short line to the registry are assumed atomic
  if (sc.has("ghost") && sc.at("ghost").as_bool()) { fs().put("/simfs/shared/registry.txt", "ghost /simfs/gone/out.colvars.mtd.ghost.files.txt\n"); res.counters["fault.stale_registry_record"]++; }
  size_t chunk = (size_t)sc.at("chunk").as_int(0);
  std::vector<Walker> ws((size_t)nw);
  // model: hills deposited by each walker, keyed by step (the trajectory is a function of the step, so a
  // walker that is killed and resumed re-deposits the same hills)
  std::vector<std::map<long, MHill>> model((size_t)nw);
  std::vector<long> exchanges_since_fault((size_t)nw, 0);
  long checks = 0, mirrors_seen = 0, lagging = 0, liveness_checks = 0;
  // which version of each peer's published state a walker last opened (file identities grow with every publication)
  std::vector<std::vector<uint64_t>> seen_state((size_t)nw, std::vector<uint64_t>((size_t)nw, 0));
  auto is_state_of = [](std::string const &path, int b) { std::string suf = ".w" + std::to_string(b) + ".state"; return path.size() >= suf.size() && path.compare(path.size() - suf.size(), suf.size(), suf) == 0; };
  fs().on_open_read = [&seen_state, is_state_of, nw](int a, std::string const &path, uint64_t id) {
    if (a < 0 || a >= nw) return;
    for (int b = 0; b < nw; b++) if (b != a && is_state_of(path, b)) seen_state[(size_t)a][(size_t)b] = id;
  };
  struct HookGuard { ~HookGuard() { fs().on_open_read = nullptr; } } hook_guard;
  auto peer_state_tag = [&](int a, int b) -> std::string {
    uint64_t newest = 0;
    for (auto const &kv : fs().files) if (is_state_of(kv.first, b)) newest = std::max(newest, kv.second->id);
    if (newest > 0 && seen_state[(size_t)a][(size_t)b] == 0) return "/peer_state_never_read";
    return newest > seen_state[(size_t)a][(size_t)b] ? "/peer_state_republished_since_read" : "/peer_state_as_read";
  };
  auto prefix_check = [&](int a, int b, colvarbias_meta *mirror, long step, bool must_be_complete_to, long complete_to) {
    std::vector<std::vector<double>> centres; std::vector<double> held;
    if (!held_energy(mirror, cx, centres, held)) return;
    checks++;
    std::map<long, MHill> const &mh = model[(size_t)b];
    size_t nb = centres.size();
    std::vector<double> pre(nb, 0.0);
    double tol = ((double)mh.size() + 1) * cx.W * 3e-5 + 1e-9;
    auto dist = [&](std::vector<double> const &p) { double m = 0; for (size_t k = 0; k < nb; k++) m = std::max(m, std::fabs(held[k] - p[k])); return m; };
    long best_s = -1; double best = dist(pre); bool match = best <= tol;
    long matched_s = match ? -1 : -2;
    for (auto const &kv : mh) {
      for (size_t k = 0; k < nb; k++) pre[k] += cx.hill_at(kv.second, centres[k]);
      double d = dist(pre);
      if (d <= tol) { match = true; matched_s = kv.first; }
      if (d < best) { best = d; best_s = kv.first; }
    }
    std::string who = "walker " + std::to_string(a) + " step " + std::to_string(step) + ", mirror of walker " + std::to_string(b);
    if (!match && getenv("CVSIM_DEBUG")) { std::string st; if (fs().get("/simfs/w" + std::to_string(b) + "/out.colvars.mtd.w" + std::to_string(b) + ".state", st)) fprintf(stderr, "peer state file (%zu bytes):\n%s\n", st.size(), st.substr(0, 1500).c_str()); }
    if (!match && getenv("CVSIM_DEBUG")) { fprintf(stderr, "prefix_check: no match; closest prefix ends at step %ld with max difference %.6g (tolerance %.6g); held:", best_s, best, tol); for (double v : held) fprintf(stderr, " %.8g", v); fprintf(stderr, "\n"); }
    if (!match) {
      // classify: explain what is held as a multiset of the peer's hills (multiplicity 0..2 each):
      // depth-first search, pruned as soon as a residual becomes negative (hills are non-negative)
      std::vector<std::vector<double>> hv; std::vector<long> hs;
      for (auto const &kv : mh) { std::vector<double> v(nb); for (size_t k = 0; k < nb; k++) v[k] = cx.hill_at(kv.second, centres[k]); hv.push_back(v); hs.push_back(kv.first); }
      std::vector<int> cur(hv.size(), 0), best_m;
      std::vector<double> resid = held;
      long nodes = 0;
      std::function<bool(size_t)> dfs = [&](size_t i) -> bool {
        if (++nodes > 400000) return false;
        if (i == hv.size()) { for (double v : resid) if (std::fabs(v) > tol) return false; best_m = cur; return true; }
        for (int m = 1; m >= 0; m--) {          // present once first, then absent, then twice
          bool ok = true;
          if (m) for (size_t k = 0; k < nb; k++) if (resid[k] - hv[i][k] < -tol) { ok = false; break; }
          if (!ok) continue;
          if (m) for (size_t k = 0; k < nb; k++) resid[k] -= hv[i][k];
          cur[i] = m;
          if (dfs(i + 1)) return true;
          if (m) for (size_t k = 0; k < nb; k++) resid[k] += hv[i][k];
        }
        { bool ok = true; for (size_t k = 0; k < nb; k++) if (resid[k] - 2 * hv[i][k] < -tol) { ok = false; break; }
          if (ok) { for (size_t k = 0; k < nb; k++) resid[k] -= 2 * hv[i][k]; cur[i] = 2; if (dfs(i + 1)) return true; for (size_t k = 0; k < nb; k++) resid[k] += 2 * hv[i][k]; } }
        cur[i] = 0;
        return false;
      };
      // first the simplest explanation: a prefix of the peer's hills plus a later contiguous run (one gap) — with wide, strongly
      // overlapping hills the general search below is ill-conditioned and may find a spurious combination first
      bool explained = false;
      {
        size_t n = hv.size();
        std::vector<std::vector<double>> pref(n + 1, std::vector<double>(nb, 0.0));
        for (size_t i = 0; i < n; i++) for (size_t k = 0; k < nb; k++) pref[i + 1][k] = pref[i][k] + hv[i][k];
        for (size_t a1 = 0; a1 <= n && !explained; a1++)           // hills [0, a1) present
          for (size_t b1 = a1 + 1; b1 < n && !explained; b1++)      // hills [a1, b1) missing
            for (size_t c1 = b1 + 1; c1 <= n && !explained; c1++) { // hills [b1, c1) present
              double mx = 0; for (size_t k = 0; k < nb; k++) mx = std::max(mx, std::fabs(held[k] - (pref[a1][k] + pref[c1][k] - pref[b1][k])));
              if (mx <= tol) { best_m.assign(n, 0); for (size_t i = 0; i < a1; i++) best_m[i] = 1; for (size_t i = b1; i < c1; i++) best_m[i] = 1; explained = true; }
            }
      }
      if (!explained) explained = dfs(0);
      std::vector<std::pair<long, int>> mult;
      if (explained) for (size_t i = hv.size(); i-- > 0;) mult.emplace_back(hs[i], best_m[i]);
      if (explained) resid.assign(nb, 0.0);
      double left = 0; for (double v : resid) left = std::max(left, std::fabs(v));
      std::string kind, expl;
      bool dup = false, gap = false, seen_absent = false;
      for (auto it = mult.rbegin(); it != mult.rend(); ++it) {   // ascending steps
        if (it->second >= 2) dup = true;
        if (it->second == 0) seen_absent = true; else if (seen_absent) gap = true;
        expl += " " + std::to_string(it->first) + "x" + std::to_string(it->second);
      }
      if (left > tol) kind = "unexplained";
      else if (dup) kind = "duplicate_hill";
      else if (gap) kind = "gap";
      else kind = "unexplained";
      res.fail("meta_mirror", kind + (kind == "gap" ? peer_state_tag(a, b) : std::string()) + (ws[(size_t)b].resumes || ws[(size_t)a].resumes ? "/after_resume" : ""),
               who + ": not the sum of the peer's hills up to any step; hills held (step x multiplicity):" + expl + "; unexplained residual " + fmt_double(left) + ", tolerance " + fmt_double(tol));
      (void)best_s;
      return;
    }
    if (!mh.empty() && matched_s < mh.rbegin()->first) lagging++;
    if (must_be_complete_to && matched_s < complete_to)
      res.fail("meta_liveness", "mirror_incomplete" + peer_state_tag(a, b), who + ": holds the peer's hills up to step " + std::to_string(matched_s) + " but the peer had flushed up to step " + std::to_string(complete_to) + " two exchanges ago");
  };
  // liveness bookkeeping: a global event counter orders the completion of steps across walkers
  long event_seq = 0;
  std::vector<std::vector<std::pair<long, long>>> flushes((size_t)nw);   // per walker: (event seq, latest own hill step flushed)
  std::vector<long> exch_e1((size_t)nw, -1), exch_e2((size_t)nw, -1);    // completion seq of the last two exchanges
  for (int w = 0; w < nw; w++) {
    Walker &W = ws[(size_t)w];
    W.w = w; W.ec = base; W.ec.walker = w; W.ec.n_walkers = 1; W.ec.data_seed = base.data_seed + (uint64_t)w * 7919; W.ec.log_keep = getenv("CVSIM_DEBUG") ? 5000 : 50;
    W.config = config;
    { size_t p = W.config.find("@ID@"); if (p != std::string::npos) W.config.replace(p, 4, "w" + std::to_string(w)); }
    for (auto const &op : plan.at("ops").a) if ((int)op.at("w").as_int() == w) W.ops.push_back(op);
    fs().set_chunk(w, chunk);
    W.on_new_instance = [&](Walker &X) { X.e->record = false; exchanges_since_fault[(size_t)X.w] = 0; };
    W.before_step = [&](Walker &X, long step) {
      // model: this walker is about to deposit a hill at this step (it becomes visible to the peers during the step,
      // so it must be known before); the centre comes from the harness's own evaluation of the variables
      if (fs().is_dead(X.w)) return;
      if (step % cx.nh == 0 && cvm::step_relative() > 0 && !X.e->simulation_continuing()) {
        MHill h; h.step = step;
        for (auto const &c : cvspec) h.c.push_back(c.eval(traj[(size_t)X.w], step));
        model[(size_t)X.w][step] = h;
      }
    };
    W.after_step = [&](Walker &X, long step) {
      if (res.violation || fs().is_dead(X.w)) return;
      Engine *e = X.e;
      if (e->colvars->biases.empty()) return;
      colvarbias_meta *me = dynamic_cast<colvarbias_meta *>(e->colvars->biases[0]);
      if (!me) return;
      bool exchange = step % cx.F == 0;
      event_seq++;
      if (getenv("CVSIM_DEBUG")) fprintf(stderr, "event %ld: walker %d finished step %ld%s (continuing %d, rel %ld)\n", event_seq, X.w, step, exchange ? " [exchange]" : "", (int)e->simulation_continuing(), (long)cvm::step_relative());
      long need_e1 = exch_e1[(size_t)X.w];
      if (exchange) {
        exchanges_since_fault[(size_t)X.w]++;
        // everything this walker deposited so far has been flushed to its hills file by replica_share()
        flushes[(size_t)X.w].emplace_back(event_seq, model[(size_t)X.w].empty() ? -1 : model[(size_t)X.w].rbegin()->first);
        exch_e1[(size_t)X.w] = exch_e2[(size_t)X.w]; exch_e2[(size_t)X.w] = event_seq;
      }
      // own data: exactly the walker's own hills
      {
        std::vector<std::vector<double>> centres; std::vector<double> held;
        if (held_energy(me, cx, centres, held)) {
          std::vector<double> exp(centres.size(), 0.0);
          for (auto const &kv : model[(size_t)X.w]) { if (kv.first > step) break; for (size_t k = 0; k < centres.size(); k++) exp[k] += cx.hill_at(kv.second, centres[k]); }
          double tol = ((double)model[(size_t)X.w].size() + 1) * cx.W * 3e-5 + 1e-9;
          for (size_t k = 0; k < centres.size(); k++)
            if (std::fabs(held[k] - exp[k]) > tol) {
              if (getenv("CVSIM_DEBUG")) {
                for (auto const &kv : model[(size_t)X.w]) { fprintf(stderr, "model hill step %ld c", kv.first); for (double c : kv.second.c) fprintf(stderr, " %.12g", c); fprintf(stderr, "\n"); }
                for (colvar *cv : *e->colvars->variables()) fprintf(stderr, "lib cv %s = %.12g\n", cv->name.c_str(), cv->value().real_value);
                for (int a = 0; a < e->cfg.natoms; a++) { V3 p = traj[(size_t)X.w].pos(a, step); fprintf(stderr, "atom %d lib %.9g %.9g %.9g  model %.9g %.9g %.9g  mass %.9g|%.9g\n", a, e->last_pos[(size_t)a].x, e->last_pos[(size_t)a].y, e->last_pos[(size_t)a].z, p.x, p.y, p.z, e->model.mass[(size_t)a], traj[(size_t)X.w].mass[(size_t)a]); }
                for (colvar *cv : *e->colvars->variables()) for (auto &cc : colvars_verif_access::cvcs(cv)) for (auto *ag : cc->atom_groups) {
                  fprintf(stderr, "cv %s group %s com %.9g %.9g %.9g M %.9g atoms", cv->name.c_str(), ag->key.c_str(), ag->center_of_mass().x, ag->center_of_mass().y, ag->center_of_mass().z, ag->total_mass);
                  for (auto ai = ag->begin(); ai != ag->end(); ai++) fprintf(stderr, " id%d m%.6g (%.6g %.6g %.6g)", ai->id, ai->mass, ai->pos.x, ai->pos.y, ai->pos.z);
                  fprintf(stderr, "\n");
                }
                for (auto const &c : cvspec) fprintf(stderr, "harness eval %s = %.12g\n", c.kind.c_str(), c.eval(traj[(size_t)X.w], step));
                for (size_t q = 0; q < centres.size(); q++) { fprintf(stderr, "bin %zu centre", q); for (double c : centres[q]) fprintf(stderr, " %.10g", c); fprintf(stderr, " held %.10g exp %.10g\n", held[q], exp[q]); }
              }
              res.fail("meta_own", std::string("own_bias_differs") + (X.resumes ? "/after_resume" : ""), "walker " + std::to_string(X.w) + " step " + std::to_string(step) + " bin " + std::to_string(k) + ": own bias " + fmt_double(held[k]) + " expected " + fmt_double(exp[k]));
              return;
            }
          for (double v : held) fp = fnv_dbl(v, fp);
        }
      }
      // mirrors of the peers
      std::vector<colvarbias_meta *> &reps = colvars_verif_access::meta_replicas(me);
      for (size_t ir = 1; ir < reps.size() && !res.violation; ir++) {
        std::string id = colvars_verif_access::meta_replica_id(reps[ir]);
        if (id == "ghost") continue;   // the stale record: an (empty) mirror of it is legitimate
        int b = id.size() > 1 ? atoi(id.c_str() + 1) : -1;
        if (b < 0 || b >= nw || b == X.w) { res.fail("meta_mirror", "unknown_replica", "walker " + std::to_string(X.w) + " holds a mirror for unknown replica '" + id + "'"); return; }
        mirrors_seen++;
        // liveness: what the peer flushed before this walker's exchange-before-last completed must be held now
        // (this walker's last exchange started after that flush); only in fault-free windows
        long complete_to = -1; bool must = false;
        if (exchange && need_e1 >= 0 && X.resumes == 0 && ws[(size_t)b].resumes == 0 && X.kills == 0 && ws[(size_t)b].kills == 0 && !fs().is_dead(b)) {
          for (auto const &fl : flushes[(size_t)b]) if (fl.first < need_e1) complete_to = std::max(complete_to, fl.second);
          must = complete_to >= 0;
          if (must) liveness_checks++;
        }
        prefix_check(X.w, b, reps[ir], step, must, complete_to);
      }
    };
  }
  walkers_reset(nw);
  run_walkers(ws);
  for (auto &W : ws) {
    if (!W.fail.empty() && !res.violation) { res.counters["probe.walker_failed"]++; res.detail = W.fail; if (getenv("CVSIM_DEBUG")) fprintf(stderr, "walker %d failed: %s\n", W.w, W.fail.c_str()); }
    if (W.e) add_steps(res, *W.e);
    for (auto *a : W.abandoned) add_steps(res, *a);
    res.counters["probe.resumes"] += W.resumes;
    res.counters["fault.walker_killed"] += W.kills;
    res.counters["probe.walker_halted_on_error"] += W.halts;
    if (W.halts && getenv("CVSIM_DEBUG")) {
      fprintf(stderr, "walker %d halted: %s\n", W.w, W.last_halt.c_str());
      for (auto const &l : W.e->log_lines) fprintf(stderr, "   log w%d: %s", W.w, l.c_str());
    }
  }
  if (res.violation && getenv("CVSIM_DEBUG")) {
    for (auto const &p : fs().list()) { std::string c; fs().get(p, c); fprintf(stderr, "FILE %s (%zu bytes)\n", p.c_str(), c.size()); if (p.find(".hills") != std::string::npos || p.find(".txt") != std::string::npos) fprintf(stderr, "%s\n", c.c_str()); }
  }
  if (res.violation && getenv("CVSIM_DEBUG"))
    for (auto &W : ws) if (W.e) for (auto const &l : W.e->log_lines) if (l.find("eplica") != std::string::npos || l.find("hill") != std::string::npos || l.find("ailed") != std::string::npos) fprintf(stderr, "   log w%d: %s", W.w, l.c_str());
  SchedStats const &ss = sched_stats();
  if (ss.deadlock && !res.violation) res.fail("deadlock", "mw_meta", "no walker could make progress");
  res.counters["probe.mirror_checks"] += checks;
  res.counters["probe.mirror_lagging"] += lagging;
  res.counters["probe.liveness_checks"] += liveness_checks;
  res.counters["probe.mirrors_seen"] += mirrors_seen;
  res.nontrivial = mirrors_seen > 0;
  uint64_t sh = 5;
  for (size_t i = 0; i < sched.size() && i < 16; i++) sh = fnv_u64((uint64_t)sched[i], sh);
  long kills = 0; for (auto &W : ws) kills += W.kills;
  res.class_hash = fnv_str(sc.at("template").as_str(), fnv_u64((uint64_t)nw, fnv_u64((uint64_t)kills, fnv_u64(chunk, sh))));
  res.fingerprint = fp;
  (void)T;
  sim.finish(res);
}

// ------------------------------------------------------------------------------------------------ multiple-walker OPES
// Every deposit is a collective operation: each walker contributes one kernel, centred at its own variables, and every walker appends
// all of them in replica order.  With a fixed width and no compression the kernel list of every walker is therefore, after every step,
// exactly the list of all walkers' deposits so far - each once, in order.
void run_opes(J const &plan, RunResult &res) {
  J const &sc = plan.at("scenario");
  EngineCfg base; base.from_json(sc.at("engine"));
  int nw = (int)sc.at("walkers").as_int(2);
  long T = (long)sc.at("T").as_int(10); int pace = (int)sc.at("pace").as_int(1);
  std::string config = sc.at("config").as_str();
  std::vector<CvSpec> cvspec;
  for (auto const &o : sc.at("cvs").a) { CvSpec c; c.kind = o.at("kind").as_str(); for (auto const &g : o.at("groups").a) { std::vector<int> ids; for (auto const &id : g.a) ids.push_back((int)id.as_int()); c.groups.push_back(ids); } cvspec.push_back(c); }
  std::vector<TrajModel> traj((size_t)nw);
  for (int w = 0; w < nw; w++) traj[(size_t)w].build(base.data_seed + (uint64_t)w * 7919, base.natoms, base.traj_amp, base.force_amp, false);
  std::vector<int> sched; for (auto const &v : plan.at("sched").a) sched.push_back((int)v.as_int());
  uint64_t fp = 1469598103934665603ULL;
  SimRun sim(nw, sched, 1, 4000000);
  std::vector<Walker> ws((size_t)nw);
  // model: the deposits so far (step of each block of nw kernels), the same for every walker
  std::vector<long> deposit_steps;                 // built by whichever walker gets there first; checked by all
  std::vector<size_t> held((size_t)nw, 0);         // kernels held by each walker after its last step
  std::vector<bool> first_of_instance((size_t)nw, true);
  long checks = 0, deposits_seen = 0;
  for (int w = 0; w < nw; w++) {
    Walker &W = ws[(size_t)w];
    W.w = w; W.ec = base; W.ec.walker = w; W.ec.n_walkers = nw; W.ec.data_seed = base.data_seed + (uint64_t)w * 7919; W.config = config;
    for (auto const &op : plan.at("ops").a) if ((int)op.at("w").as_int() == w) W.ops.push_back(op);
    W.on_new_instance = [&](Walker &X) { X.e->record = false; first_of_instance[(size_t)X.w] = true; };
    W.after_step = [&](Walker &X, long step) {
      if (res.violation) return;
      Engine *e = X.e;
      if (e->colvars->biases.empty()) return;
      colvarbias_opes *ob = dynamic_cast<colvarbias_opes *>(e->colvars->biases[0]);
      if (!ob) return;
      auto const &ker = colvars_verif_access::opes_kernels(ob);
      std::string who = "walker " + std::to_string(X.w) + " step " + std::to_string(step);
      // deposits are due on multiples of newHillFrequency, except on the first evaluation of an instance (a repeated step after a restart)
      bool due = step % pace == 0 && !first_of_instance[(size_t)X.w];
      first_of_instance[(size_t)X.w] = false;
      size_t before = held[(size_t)X.w], now = ker.size();
      std::string where = X.resumes ? "/after_resume" : "";
      if (now != before + (due ? (size_t)nw : 0)) {
        res.fail("opes_union", std::string(now > before + (due ? (size_t)nw : 0) ? "too_many_kernels" : "kernels_missing") + where,
                 who + ": holds " + std::to_string(now) + " kernels, " + std::to_string(before) + " before this step; " + (due ? std::to_string(nw) + " deposits (one per walker) were due" : "no deposit was due"));
        return;
      }
      if (due) {
        size_t block = before / (size_t)nw;
        if (block >= deposit_steps.size()) deposit_steps.push_back(step);
        if (deposit_steps[block] != step) { res.fail("opes_union", "deposit_step" + where, who + ": block " + std::to_string(block) + " of its kernels was deposited at step " + std::to_string(step) + ", by another walker at step " + std::to_string(deposit_steps[block])); return; }
        deposits_seen++;
      }
      // the whole list: block b holds the kernels of walkers 0..nw-1 at deposit step b
      for (size_t q = 0; q < now && !res.violation; q++) {
        size_t block = q / (size_t)nw; int v = (int)(q % (size_t)nw);
        if (block >= deposit_steps.size()) { res.fail("opes_union", "unknown_block" + where, who); return; }
        for (size_t i = 0; i < cvspec.size(); i++) {
          double want = cvspec[i].eval(traj[(size_t)v], deposit_steps[block]);
          if (ker[q].m_center.size() != cvspec.size() || std::fabs(ker[q].m_center[i] - want) > 1e-9 * (1 + std::fabs(want))) {
            res.fail("opes_union", "kernel_is_not_the_deposit_of_its_walker" + where, who + ": kernel " + std::to_string(q) + " (block " + std::to_string(block) + ", replica " + std::to_string(v) + ") is centred at " +
                     fmt_double(i < ker[q].m_center.size() ? ker[q].m_center[i] : 0) + "; walker " + std::to_string(v) + " was at " + fmt_double(want) + " at step " + std::to_string(deposit_steps[block]));
            return;
          }
        }
        if (!(ker[q].m_height > 0) || !std::isfinite(ker[q].m_height)) { res.fail("opes_union", "kernel_height" + where, who + ": kernel " + std::to_string(q) + " has height " + fmt_double(ker[q].m_height)); return; }
        fp = fnv_dbl(ker[q].m_height, fp);
      }
      unsigned long long cnt = colvars_verif_access::opes_counter(ob);
      if (cnt != 1ULL + (unsigned long long)now) { res.fail("opes_union", "counter" + where, who + ": " + std::to_string(cnt) + " kernels counted, " + std::to_string(now) + " held (one is the initial one)"); return; }
      held[(size_t)X.w] = now; checks++;
    };
  }
  walkers_reset(nw);
  run_walkers(ws);
  for (auto &W : ws) {
    if (!W.fail.empty() && !res.violation) { res.counters["probe.walker_failed"]++; res.detail = W.fail; }
    if (W.e) add_steps(res, *W.e);
    for (auto *a : W.abandoned) add_steps(res, *a);
    res.counters["probe.resumes"] += W.resumes;
    if (W.halts && !res.violation) res.fail("opes_union", "walker_halted_on_error", "walker " + std::to_string(W.w) + ": " + W.last_halt);
  }
  SchedStats const &ss = sched_stats();
  if (ss.deadlock && !res.violation) res.fail("deadlock", "mw_opes", "no walker could make progress");
  res.counters["probe.opes_list_checks"] += checks;
  res.counters["probe.opes_deposits_seen"] += deposits_seen;
  res.counters["net.messages"] += (long long)net().sent;
  res.counters["net.barriers"] += (long long)net().barriers;
  res.nontrivial = deposits_seen > 0;
  uint64_t sh = 5;
  for (size_t i = 0; i < sched.size() && i < 16; i++) sh = fnv_u64((uint64_t)sched[i], sh);
  res.class_hash = fnv_str(sc.at("template").as_str(), fnv_u64((uint64_t)nw, fnv_u64((uint64_t)ws[0].resumes, fnv_u64((uint64_t)pace, sh))));
  res.fingerprint = fp;
  (void)T;
  sim.finish(res);
}

RunResult run(J const &plan) {
  RunResult res;
  std::string mode = plan.at("scenario").at("mode").as_str();
  if (mode == "abf") run_abf(plan, res);
  else if (mode == "opes") run_opes(plan, res);
  else run_meta(plan, res);
  res.counters["probe.mode_" + mode]++;
  if (res.violation) res.features = mode + "+" + config_features(plan.at("scenario").at("config").as_str());
  return res;
}

void shrink_more(J const &plan, std::vector<J> &out) {
  // fewer walkers: drop the ops of the last walker
  long nw = (long)plan.at("scenario").at("walkers").as_int(2);
  if (nw > 2) {
    J c = plan; c["scenario"]["walkers"] = J((long long)(nw - 1));
    out.push_back(std::move(c));
  }
}

Property make() {
  Property p;
  p.id = "C14"; p.level = "exploration"; p.design_ref = "DESIGN.md §7 C14";
  p.rule = "plan = 2-4 walkers x shared ABF on 1-2 variables (grids covering part or all of the sampled range) x sharedFreq 2-7 x whole-job stop/resume at "
           "0-2 steps (on and off the share schedule) x a seeded schedule that interleaves the walkers at every step boundary, message and file call; "
           "non-trivial = at least one share happened; distinct = hash of (template, number of walkers, resumes, schedule prefix)";
  p.rule += " Later additions: 16% of the plans are multiple-walker OPES (kernel list = all walkers' deposits, each once, in replica order); a quarter of the metadynamics jobs start with a stale registry record; gaps are tagged by whether the reader holds the peer's current state.";
  p.assumptions = {"MPI-like transport: reliable, ordered; no loss/duplication is injected (Colvars has no retry logic and no deployment sees that)",
                   "per-walker samples do not depend on the applied ABF force (system force = total force - ABF force), so a solo run of the same trajectory is the reference",
                   "the whole job stops and restarts together"};
  p.real_components = {"colvarbias_abf (update, replica_share, state I/O)", "colvar_grid delta/add/copy", "colvarmodule"};
  p.stub_components = {"replica transport (sim::Net over the scheduler)", "MD engines (kinematic, one per walker)", "file system (sim::FS)"};
  p.gen = gen; p.run = run; p.shrink_more = shrink_more;
  p.quick_runs = 500; p.thorough_runs = 30000; p.quick_secs = 75; p.thorough_secs = 1200;
  return p;
}
Registrar reg(make());

}  // namespace
