// C07 — total-force measurement is the inverse of force application.
//
// Workload: one variable that measures total forces (5 kinds; subtractAppliedForce on/off;
// temperature 0 or 300 K) kept awake by a histogram, with force-applying biases (harmonic, linear,
// walls, moving harmonic) that are defined and deleted between run segments; lagged total forces
// (the engine returns at step t+1 the forces that acted during step t, Colvars' own included) or
// same-step total forces.
// Four runs of the same plan differ only in the system forces the simulated engine adds:
//   A  none: the atoms experience exactly what Colvars applied;
//   B  a smooth field S;   C  2 S;   D  S plus forces on atoms outside the variable's groups.
// Oracle: (inverse, run A) with lagged forces the total force reported at the step after the
// forces acted equals the force the variable applied at that step plus kT times the documented
// Jacobian term (2/r, 0, 1/r, pi/180 cot(theta), 0) — or the Jacobian term alone with
// subtractAppliedForce; with same-step forces it equals the Jacobian term of that step; at no
// other step does the applied force show up;  (linearity) ftC - ftA = 2 (ftB - ftA);
// (locality) ftD = ftB;  at every step, run boundaries included.
#include "simrun.h"
#include "scenario.h"
#include "geom.h"

#include <cmath>
#include <memory>
#include <set>

using namespace sim;

namespace {

const char *k_tmpl[] = {"harm_fixed", "linear_fixed", "walls_fixed", "harm_cmove", "harm_kmove"};

J gen(uint64_t seed, bool thorough) {
  Rng r(seed, 7);
  EngineCfg ec;
  ec.natoms = (int)r.range(10, 16);
  ec.data_seed = r.next() >> 12; ec.noise_seed = r.next() >> 12;
  ec.dt = 1.0; ec.temperature = r.chance(0.5) ? 300.0 : 0.0; ec.forces_late = r.chance(0.7);
  ec.traj_amp = r.uniform(0.3, 0.9);
  TrajModel m; m.build(ec.data_seed, ec.natoms, ec.traj_amp, ec.force_amp, false);
  long T = thorough ? 60 : 30;
  J plan = J::obj();
  plan["v"] = 1; plan["property"] = "C07"; plan["seed"] = (long long)seed;
  J sc = J::obj();
  J e = J::obj(); ec.to_json(e); sc["engine"] = e;
  sc["config"] = global_config(1, 0, false);
  sc["T"] = (long long)T;
  static const char *kinds[] = {"distance", "distanceZ", "dihedral", "angle", "distanceXY", "gyration", "rmsd", "eigenvector", "combo"};
  std::string kind = kinds[r.below(9)];
  bool fitted = kind == "gyration" || kind == "rmsd" || kind == "eigenvector";
  if (fitted && kind != "gyration" && ec.traj_amp > 0.5) {   // keep the optimal rotation well defined
    ec.traj_amp = 0.5; m.build(ec.data_seed, ec.natoms, ec.traj_amp, ec.force_amp, false);
    e = J::obj(); ec.to_json(e); sc["engine"] = e;
  }
  CvSpec cv = make_cv(r, ec.natoms, kind, "x");
  if (fitted) {
    int n = (int)r.range(4, std::min(7, ec.natoms));
    cv.groups = pick_groups(r, ec.natoms, 1, 1); std::set<int> have(cv.groups[0].begin(), cv.groups[0].end());
    while ((int)have.size() < n) have.insert((int)r.below((uint64_t)ec.natoms));
    cv.groups[0].assign(have.begin(), have.end());
    auto r3 = [](double v) { return std::round(v * 1000.0) / 1000.0; };
    if (kind != "gyration") {
      long tref = r.range(0, T);
      for (int a : cv.groups[0]) { V3 p = m.pos(a, tref); cv.ref.push_back(V3(r3(p.x + r.uniform(-0.4, 0.4)), r3(p.y + r.uniform(-0.4, 0.4)), r3(p.z + r.uniform(-0.4, 0.4)))); }
    }
    if (kind == "eigenvector") {
      cv.difference = r.chance(0.4);
      for (size_t i = 0; i < cv.groups[0].size(); i++) {
        V3 d(r3(r.uniform(-1, 1)), r3(r.uniform(-1, 1)), r3(r.uniform(-1, 1)));
        cv.vec.push_back(cv.difference ? V3(r3(cv.ref[i].x + 0.6 * d.x), r3(cv.ref[i].y + 0.6 * d.y), r3(cv.ref[i].z + 0.6 * d.z)) : d);
      }
      cv.normalize = r.chance(0.5);
    }
  }
  if (kind == "combo") {
    // a linear combination of two distances; components may be switched off and on between segments (cvcflags)
    cv.groups = pick_groups(r, ec.natoms, 4, 2);
    static const double cs[] = {1, -1, 0.5, 2, -1.5};
    cv.coeff0 = cs[r.below(5)]; cv.coeff1 = cs[r.below(5)];
  }
  place_grid(cv, m, T, r, (int)r.range(5, 10), 1.3);
  double lo, hi; cv_range(cv, m, T, lo, hi);
  bool sub = r.chance(0.5);
  cv.extra += "  outputTotalForce on\n";
  if (sub) cv.extra += "  subtractAppliedForce on\n";
  sc["cv"] = cv.config(); sc["kind"] = cv.kind; sc["sub"] = sub;
  bool hide = r.chance(0.15) && !cv.periodic() && kind != "combo";   // (a periodic 1-D ABF applies minus its mean gradient from the first sample on)
  sc["hide"] = hide;
  sc["keepawake"] = hide ? "abf {\n  name keep\n  colvars x\n  fullSamples 1000000\n  hideJacobian on\n}\n" : "histogram {\n  name keep\n  colvars x\n}\n";
  { J g = J::arr(); for (int a : cv.groups[0]) g.push((long long)a); sc["group"] = g;
    J rf = J::arr(); for (auto const &v : cv.ref) { rf.push(v.x); rf.push(v.y); rf.push(v.z); } sc["ref"] = rf;
    if (kind == "combo") { J gg = J::arr(); for (auto const &grp : cv.groups) { J a = J::arr(); for (int x : grp) a.push((long long)x); gg.push(a); } sc["combo_groups"] = gg; sc["coeff0"] = cv.coeff0; sc["coeff1"] = cv.coeff1; }
    J vc = J::arr(); for (auto const &v : cv.vec) { vc.push(v.x); vc.push(v.y); vc.push(v.z); } sc["vec"] = vc; sc["normalize"] = cv.normalize; sc["difference"] = cv.difference; }
  J used = J::arr(); { std::set<int> u; for (auto const &g : cv.groups) for (int a : g) u.insert(a); for (int a : u) used.push((long long)a); }
  sc["atoms"] = used;
  std::vector<CvSpec> sub1{cv}; std::vector<std::pair<double, double>> rg{{lo, hi}};
  J ops = J::arr(); std::string sig = cv.kind.substr(0, 5) + (cv.normalize ? "n" : "") + (cv.difference ? "d" : "") + (hide ? "/hide" : "") + (sub ? "/sub" : "") + (ec.forces_late ? "/late/" : "/same/");
  int nb = 0; std::vector<std::string> live;
  auto add = [&]() {
    std::string t;
    for (;;) { t = k_tmpl[r.below(5)]; if (cv.periodic() && (t == "linear_fixed" || t == "walls_fixed" || t == "harm_cmove")) continue; break; }
    std::string name = "b" + std::to_string(nb++);
    std::string cfg = make_bias(t, r, sub1, rg, T, name).config; size_t p;
    if ((p = cfg.find("  timeStepFactor")) != std::string::npos) cfg.erase(p, cfg.find('\n', p) - p + 1);
    while ((p = cfg.find("  writeTI")) != std::string::npos) cfg.erase(p, cfg.find('\n', p) - p + 1);
    J op = J::obj(); op["w"] = 0; op["op"] = "addbias"; op["name"] = name; op["tmpl"] = t; op["config"] = cfg; ops.push(op); live.push_back(name); sig += "B";
  };
  add(); if (r.chance(0.3)) add();
  long left = T; int nseg = (int)r.range(1, 4);
  for (int s = 0; s < nseg && left > 0; s++) {
    long n = s == nseg - 1 ? left : r.range(1, std::max<long>(1, left - (nseg - 1 - s)));
    J op = J::obj(); op["w"] = 0; op["op"] = "run"; op["n"] = (long long)n; ops.push(op); left -= n; sig += "r";
    if (s < nseg - 1) {
      double u = r.unit();
      if (u < 0.45 && !live.empty()) { size_t q = r.below(live.size()); J o2 = J::obj(); o2["w"] = 0; o2["op"] = "delbias"; o2["name"] = live[q]; ops.push(o2); live.erase(live.begin() + (long)q); sig += "d"; }
      else if (u < 0.7 && live.size() < 3) add();
      if (kind == "combo" && r.chance(0.6)) { static const char *fl[] = {"1 0", "0 1", "1 1"}; J o3 = J::obj(); o3["w"] = 0; o3["op"] = "cvcflags"; o3["flags"] = fl[r.below(3)]; ops.push(o3); sig += "f"; }
    }
  }
  sc["template"] = sig;
  plan["scenario"] = sc;
  plan["ops"] = ops;
  return plan;
}

struct Trace { std::vector<StepRec> recs; std::vector<int> active_mask; std::string err; };

// mode: 0 = no system forces, 1 = S, 2 = 2S, 3 = S + foreign
Trace execute(J const &plan, int mode, RunResult &res, bool nohide = false) {
  Trace out;
  J const &sc = plan.at("scenario");
  EngineCfg ec; std::string config; long T;
  scenario_from_json(sc, ec, config, T);
  std::set<int> used; for (auto const &a : sc.at("atoms").a) used.insert((int)a.as_int());
  std::unique_ptr<Engine> e(new Engine(ec));
  uint64_t fseed = ec.data_seed ^ 0x5151ULL;
  e->fsys_override = [mode, used, fseed](long step, std::vector<cvm::rvector> &f) {
    for (size_t i = 0; i < f.size(); i++) {
      if (mode == 0) f[i] = cvm::rvector(0, 0, 0);
      else if (mode == 2) f[i] = 2.0 * f[i];
      else if (mode == 3 && !used.count((int)i)) f[i] += cvm::rvector(counter_gauss(fseed, i, (uint64_t)step, 0), counter_gauss(fseed, i, (uint64_t)step, 1), counter_gauss(fseed, i, (uint64_t)step, 2)) * 5.0;
    }
  };
  std::string conf = config + sc.at("cv").as_str() + (nohide ? std::string("histogram {\n  name keep\n  colvars x\n}\n") : sc.at("keepawake").as_str());
  if (e->configure(conf) != COLVARS_OK || cvm::get_error()) { out.err = "configuration refused: " + e->last_error(); return out; }
  Engine *ep0 = e.get();
  e->after_step = [&out, ep0](long) {
    int mask = 0; colvar *cv = cvm::colvar_by_name("x");
    if (cv) { auto &cc = colvars_verif_access::cvcs(cv); for (size_t q = 0; q < cc.size() && q < 30; q++) if (cc[q]->is_enabled()) mask |= 1 << q; }
    out.active_mask.push_back(mask); (void)ep0;
  };
  for (auto const &op : plan.at("ops").a) {
    std::string k = op.at("op").as_str();
    cvm::clear_error();
    if (k == "cvcflags") { e->run_script({"cv", "colvar", "x", "cvcflags", op.at("flags").as_str()}); if (mode == 0) res.counters["fault.components_switched"]++; cvm::clear_error(); continue; }
    if (k == "run") e->run((int)op.at("n").as_int(1), false);
    else if (k == "addbias") { if (e->run_script({"cv", "config", op.at("config").as_str()}) != COLVARS_OK) cvm::clear_error(); }
    else if (k == "delbias") { if (cvm::bias_by_name(op.at("name").as_str())) { e->run_script({"cv", "bias", op.at("name").as_str(), "delete"}); if (mode == 0) res.counters["fault.bias_deleted_mid_run"]++; } }
  }
  out.recs = e->rec;
  if (mode == 0) add_steps(res, *e);
  return out;
}

bool close_enough(double a, double b, double rtol, double atol) { return std::fabs(a - b) <= atol + rtol * std::max(std::fabs(a), std::fabs(b)); }

struct JacCtx {
  std::string kind; std::vector<int> group; std::vector<V3> ref, evec; TrajModel m; bool hide = false;
  std::vector<std::vector<int>> cgroups; double c0 = 1, c1 = 1; int mask = 3;   // combo
  long fd_unstable = 0, value_mismatch = 0, numeric = 0;
  double last_mag = 0;   // sum of the absolute finite-difference terms of the last numeric divergence (sets its accuracy)
  std::vector<V3> positions(long step) const { std::vector<V3> p; for (int a : group) p.push_back(m.pos(a, step)); return p; }
  double value(std::vector<V3> const &p) const {
    if (kind == "gyration") return radius_of_gyration(p);
    if (kind == "rmsd") return min_rmsd(p, ref);
    std::vector<V3> xs = superpose(p, ref); double v = 0;
    for (size_t i = 0; i < p.size(); i++) v += (xs[i] - ref[i]).dot(evec[i]);
    return v;
  }
  // divergence of the inverse-gradient field v_i the variable projects the forces on, by finite differences:
  // gyration, rmsd: v_i = N grad_i xi (|grad xi|^2 = 1/N), so div v = N Laplacian(xi);
  // eigenvector: v_i = R^t e_i / |e|^2 with R the optimal rotation
  double divergence(std::vector<V3> const &p0, double h, double *mag = nullptr) const {
    std::vector<V3> p = p0; double acc = 0, absacc = 0;
    auto comp = [](V3 &v, int c) -> double & { return c == 0 ? v.x : c == 1 ? v.y : v.z; };
    if (kind == "eigenvector") {
      double n2 = 0; for (auto const &e : evec) n2 += e.dot(e);
      for (size_t i = 0; i < p.size(); i++)
        for (int c = 0; c < 3; c++) {
          double keep = comp(p[i], c); M3 Rp, Rm;
          comp(p[i], c) = keep + h; superpose(p, ref, &Rp);
          comp(p[i], c) = keep - h; superpose(p, ref, &Rm);
          comp(p[i], c) = keep;
          V3 a = Rp.apply_t(evec[i]), b = Rm.apply_t(evec[i]);
          acc += (comp(a, c) - comp(b, c)) / (2 * h); absacc += std::fabs(comp(a, c) - comp(b, c)) / (2 * h);
        }
      if (mag) *mag = absacc / n2;
      return acc / n2;
    }
    double v0 = value(p);
    for (size_t i = 0; i < p.size(); i++)
      for (int c = 0; c < 3; c++) {
        double keep = comp(p[i], c);
        comp(p[i], c) = keep + h; double vp = value(p);
        comp(p[i], c) = keep - h; double vm = value(p);
        comp(p[i], c) = keep;
        acc += (vp + vm - 2 * v0) / (h * h); absacc += std::fabs(vp + vm - 2 * v0) / (h * h);
      }
    if (mag) *mag = absacc * (double)p.size();
    return acc * (double)p.size();
  }
  // the documented Jacobian term (without kT); ok = false when the reference cannot decide this step
  double jac(long step, double x, bool &ok) {
    ok = true; last_mag = 0;
    if (kind == "distance") return x != 0 ? 2.0 / x : 0.0;
    if (kind == "distanceXY") return x != 0 ? 1.0 / x : 0.0;
    if (kind == "angle") { double th = x * M_PI / 180.0; return M_PI / 180.0 * (th != 0 ? std::cos(th) / std::sin(th) : 0.0); }
    if (kind == "distanceZ" || kind == "dihedral") return 0.0;
    if (kind == "combo") {
      // x = sum c_i d_i over the active components: total force and Jacobian term are normalised by the sum of the squared coefficients
      double num = 0, den = 0;
      for (int c = 0; c < 2; c++) if (mask & (1 << c)) {
        double cc = c ? c1 : c0, d = (m.com(cgroups[(size_t)(2 * c + 1)], step) - m.com(cgroups[(size_t)(2 * c)], step)).norm();
        num += cc * (d != 0 ? 2.0 / d : 0.0); den += cc * cc;
      }
      return den > 0 ? num / den : 0.0;
    }
    std::vector<V3> p = positions(step);
    double mine = value(p);
    if (std::fabs(mine - x) > 1e-9 * (1 + std::fabs(x))) { value_mismatch++; ok = false; return 0; }
    double h1 = kind == "eigenvector" ? 1e-4 : 1e-3;
    double d1 = divergence(p, h1, &last_mag), d2 = divergence(p, 2 * h1);
    if (std::fabs(d1 - d2) > 2e-5 * (1 + last_mag)) { fd_unstable++; ok = false; return 0; }
    numeric++;
    return d1;
  }
};

RunResult run(J const &plan) {
  RunResult res;
  J const &sc = plan.at("scenario");
  EngineCfg ec; std::string config; long T;
  scenario_from_json(sc, ec, config, T);
  std::string kind = sc.at("kind").as_str(); bool sub = sc.at("sub").as_bool(); bool late = ec.forces_late;
  double kT = 0.001987191 * ec.temperature;
  JacCtx jc; jc.kind = kind; jc.hide = sc.has("hide") && sc.at("hide").as_bool();
  bool numeric_kind = kind == "gyration" || kind == "rmsd" || kind == "eigenvector";
  if (kind == "combo") {
    jc.m.build(ec.data_seed, ec.natoms, ec.traj_amp, ec.force_amp, false);
    for (auto const &g : sc.at("combo_groups").a) { std::vector<int> ids; for (auto const &a : g.a) ids.push_back((int)a.as_int()); jc.cgroups.push_back(ids); }
    jc.c0 = sc.at("coeff0").as_num(1); jc.c1 = sc.at("coeff1").as_num(1);
  }
  if (numeric_kind) {
    jc.m.build(ec.data_seed, ec.natoms, ec.traj_amp, ec.force_amp, false);
    for (auto const &a : sc.at("group").a) jc.group.push_back((int)a.as_int());
    CvSpec tmp; auto const &rf = sc.at("ref").a; auto const &vc = sc.at("vec").a;
    for (size_t i = 0; i + 2 < rf.size(); i += 3) jc.ref.push_back(V3(rf[i].as_num(), rf[i + 1].as_num(), rf[i + 2].as_num()));
    for (size_t i = 0; i + 2 < vc.size(); i += 3) tmp.vec.push_back(V3(vc[i].as_num(), vc[i + 1].as_num(), vc[i + 2].as_num()));
    tmp.normalize = sc.at("normalize").as_bool(); tmp.difference = sc.has("difference") && sc.at("difference").as_bool(); tmp.ref = jc.ref; jc.evec = tmp.centred_vec();
  }
  double jtol = numeric_kind ? 1e-5 : 1e-9;
  Trace tr[4];
  for (int mode = 0; mode < 4; mode++) {
    SimRun sim(1); tr[mode] = execute(plan, mode, res); sim.finish(res);
    if (!tr[mode].err.empty()) { res.counters["probe.configuration_refused"]++; res.detail = tr[mode].err; return res; }
    if (tr[mode].recs.size() != tr[0].recs.size()) { res.fail("total_force", "step_count", "mode " + std::to_string(mode)); return res; }
  }
  // hideJacobian: the same plan without it gives the force the biases put on the variable
  Trace twin; bool hide = jc.hide;
  if (hide) { SimRun sim(1); RunResult scratch; twin = execute(plan, 0, scratch, true); sim.finish(scratch); if (!twin.err.empty() || twin.recs.size() != tr[0].recs.size()) { res.counters["probe.configuration_refused"]++; return res; } }
  long inverse_checks = 0, lin_checks = 0, nonzero_applied = 0, comp_checks = 0;
  uint64_t fp = 1469598103934665603ULL;
  for (size_t s = 0; s < tr[0].recs.size() && !res.violation; s++) {
    StepRec const &A = tr[0].recs[s], &B = tr[1].recs[s], &C = tr[2].recs[s], &D = tr[3].recs[s];
    std::string at = "step " + std::to_string(A.step) + " (record " + std::to_string(s) + (A.continuing ? ", repeated" : "") + ")";
    if (A.err || B.err) { res.fail("total_force", "step_error", at); break; }
    double ftA = A.cv_ft[0], ftB = B.cv_ft[0], ftC = C.cv_ft[0], ftD = D.cv_ft[0];
    if (hide && kT != 0) {
      // hidden on request: the variable silently applies the opposite of the Jacobian term on top of the biases' force
      bool ok = true; double jt = kT * jc.jac(A.step, A.cv[0], ok);
      if (ok) {
        double expect = twin.recs[s].cv_fa[0] - jt;
        if (!close_enough(A.cv_fa[0], expect, 1e-9, 1e-11 + jtol * std::max(std::fabs(jt), kT * jc.last_mag))) { res.fail("inverse", "hidden_jacobian_not_compensated", at + ": force applied through the variable " + fmt_double(A.cv_fa[0]) + "; biases' force " + fmt_double(twin.recs[s].cv_fa[0]) + " minus Jacobian term " + fmt_double(jt) + " = " + fmt_double(expect)); break; }
        comp_checks++;
      }
    }
    // inverse
    if (late) {
      if (s > 0 && !(A.step == tr[0].recs[s - 1].step && false)) {
        StepRec const &P = tr[0].recs[s - 1];
        bool first_of_run_zero = false;
        (void)first_of_run_zero;
        double fprev = hide ? twin.recs[s - 1].cv_fa[0] : P.cv_fa[0]; if (fprev != 0.0) nonzero_applied++;
        jc.mask = s - 1 < tr[0].active_mask.size() ? tr[0].active_mask[s - 1] : 3;
        // (the step at which the set of active components changes measures the previous forces along a different variable: not judged)
        if (kind == "combo" && s < tr[0].active_mask.size() && tr[0].active_mask[s] != tr[0].active_mask[s - 1]) { res.counters["probe.steps_with_changed_component_set_skipped"]++; continue; }
        bool ok = true; double jt = kT != 0 && !hide ? kT * jc.jac(P.step, P.cv[0], ok) : 0.0;
        if (!ok) continue;
        double expect = (sub ? 0.0 : fprev) + jt;
        double scale = std::fabs(fprev) + std::fabs(jt);
        if (!close_enough(ftA, expect, 1e-9, 1e-9 * scale + 1e-11 + jtol * std::max(std::fabs(jt), kT * jc.last_mag))) {
          res.fail("inverse", std::string(sub ? "own_force_not_excluded_or_jacobian" : "applied_force_not_recovered") + (A.continuing ? "/at_run_boundary" : ""),
                   at + ": reported total force " + fmt_double(ftA) + "; the variable applied " + fmt_double(fprev) + " at the previous evaluation, Jacobian term " + fmt_double(jt) + ", expected " + fmt_double(expect));
          break;
        }
        inverse_checks++;
      }
    } else {
      // same-step forces: nothing Colvars applies at this step is in them
      jc.mask = s < tr[0].active_mask.size() ? tr[0].active_mask[s] : 3;
      bool ok = true; double expect = kT != 0 && !hide ? kT * jc.jac(A.step, A.cv[0], ok) : 0.0;
      if (!ok) continue;
      if (s > 0 && !close_enough(ftA, expect, 1e-9, 1e-11 + jtol * std::max(std::fabs(expect), kT * jc.last_mag))) {
        // (the Jacobian term of the previous evaluation is tolerated: see DESIGN, C07)
        jc.mask = tr[0].active_mask.size() >= s && s > 0 ? tr[0].active_mask[s - 1] : 3; bool ok2 = true; double alt = kT != 0 && !hide ? kT * jc.jac(tr[0].recs[s - 1].step, tr[0].recs[s - 1].cv[0], ok2) : 0.0;
        if (!ok2) continue;
        if (!close_enough(ftA, alt, 1e-9, 1e-11 + jtol * std::max(std::fabs(alt), kT * jc.last_mag))) { res.fail("inverse", hide ? "same_step_total_force_keeps_hidden_jacobian" : "same_step_total_force_not_jacobian_only", at + ": reported total force " + fmt_double(ftA) + " with no system forces; Jacobian term " + fmt_double(expect)); break; }
        res.counters["probe.same_step_jacobian_of_previous_step"]++;
      }
      if (s > 0) inverse_checks++;
    }
    // linearity and locality
    if (s > 0) {
      double dB = ftB - ftA, dC = ftC - ftA;
      double scale = std::max(std::fabs(ftA), std::max(std::fabs(ftB), std::fabs(ftC)));
      // (the three reports are differences of the measured projection and the remembered applied force: their rounding scales with that force)
      scale = std::max(scale, std::max(std::fabs(tr[0].recs[s - 1].cv_fa[0]), std::fabs(tr[2].recs[s - 1].cv_fa[0])));
      if (!close_enough(dC, 2.0 * dB, 1e-9, 1e-9 * scale + 1e-11)) { res.fail("linearity", "not_linear_in_atomic_forces", at + ": with system forces 0, S, 2S the reported total force is " + fmt_double(ftA) + ", " + fmt_double(ftB) + ", " + fmt_double(ftC)); break; }
      if (!close_enough(ftD, ftB, 1e-10, 1e-10 * scale + 1e-12)) { res.fail("locality", "depends_on_foreign_atoms", at + ": " + fmt_double(ftB) + " becomes " + fmt_double(ftD) + " when forces are added on atoms outside the variable's groups"); break; }
      lin_checks++;
    }
    fp = fnv_dbl(ftB, fp);
  }
  res.counters["probe.inverse_checks"] += inverse_checks;
  res.counters["probe.linearity_checks"] += lin_checks;
  res.counters["probe.hidden_jacobian_compensation_checks"] += comp_checks;
  res.counters["probe.steps_with_nonzero_applied_force"] += nonzero_applied;
  res.counters["probe.jacobian_terms_from_numeric_divergence"] += jc.numeric;
  res.counters["probe.numeric_divergence_unstable_skipped"] += jc.fd_unstable;
  res.counters["probe.reference_value_differs_skipped"] += jc.value_mismatch;
  res.nontrivial = inverse_checks > 0;
  res.class_hash = fnv_str(sc.at("template").as_str(), 7);
  res.features = kind + (jc.hide ? "+hideJacobian" : "") + (sub ? "+sub" : "") + (late ? "+late" : "+same_step") + (ec.temperature > 0 ? "+T300" : "+T0");
  res.fingerprint = fnv_u64(fp, res.fingerprint);
  return res;
}

Property make() {
  Property p;
  p.id = "C07"; p.level = "exploration"; p.design_ref = "DESIGN.md §7 C07";
  p.rule = "plan = one variable (distance, distanceZ, distanceXY, angle, dihedral) with outputTotalForce, subtractAppliedForce 50%, temperature 0 or 300 K, kept awake by a histogram; 1-3 force-applying biases (5 templates) defined and deleted between "
           "1-4 run segments, 30-60 steps; lagged (70%) or same-step total forces; four runs per plan (no system forces, S, 2S, S + forces on foreign atoms); non-trivial = at least one inverse check; distinct = hash of (kind, flags, convention, bias and segment sequence)";
  p.rule += " Later additions: nine kinds (also gyration, rmsd, eigenvector plain/normalised/difference, and c0 d0 + c1 d1 with cvcflags between segments); Jacobian terms of gyration/rmsd/eigenvector from a finite-difference divergence on the harness's own geometry; 15% of the non-periodic plans hide the Jacobian term (twin run without the option gives the biases' force).";
  p.assumptions = {"with lagged forces the engine returns at the next evaluation exactly F_system + F_Colvars of the previous one; Colvars projects them with the gradients it saved at that evaluation",
                   "Jacobian terms from the manual: 2kT/r (distance), kT/r (distanceXY), kT pi/180 cot(theta) (angle), 0 (distanceZ, dihedral)",
                   "with same-step forces the Jacobian term of the previous evaluation is accepted as well (counted by a probe)"};
  p.real_components = {"colvar::calc_cvc_total_force/collect_cvc_total_forces/calc_colvar_properties (f_old, subtractAppliedForce)", "cvc::calc_force_invgrads and calc_Jacobian_derivative of the five kinds", "colvar::communicate_forces, atom-group force application"};
  p.stub_components = {"MD engine (kinematic positions; force delivery same-step or lagged with Colvars' forces echoed)", "file system (sim::FS)"};
  p.gen = gen; p.run = run;
  p.quick_runs = 3000; p.thorough_runs = 80000; p.quick_secs = 70; p.thorough_secs = 900;
  return p;
}
Registrar reg(make());

}  // namespace
