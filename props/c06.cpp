// C06 — restraints implement their documented potentials and time schedules.
//
// Workload: one restraint (harmonic / harmonicWalls / linear / abmd; fixed, moving centres, moving
// force constant; continuous, staged, lambda schedule, decoupling) on 1-2 scalar variables, run over
// a total step range cut into 1-4 segments: consecutive `run` commands in one instance (the first
// step of each is a repetition) and stop/resume through a state file.
// Oracle: a reference model of the documented closed forms and schedules, as functions of the
// absolute step alone, fed with the variable values Colvars reports:
//   every step: bias energy and force on each variable;
//   trajectory file: restraint centres (x0_) and accumulated work (W_) columns;
//   state: centers / forceConstant / accumulatedWork.
// The same plan with a different segmentation must therefore give the same numbers.
#include "simrun.h"
#include "scenario.h"
#include "models/restraints.h"

#include <cmath>
#include <memory>
#include <set>
#include <map>
#include <sstream>

using namespace sim;
using model::RestraintSpec;

namespace {

double round3(double v) {
  if (v == 0) return 0;
  double mag = std::pow(10.0, std::floor(std::log10(std::fabs(v))) - 2);
  return std::round(v / mag) * mag;
}
std::string list(std::vector<double> const &v) { std::string s; for (double x : v) s += (s.empty() ? "" : " ") + num(x); return s; }

J gen(uint64_t seed, bool thorough) {
  Rng r(seed, 6);
  EngineCfg ec;
  ec.natoms = (int)r.range(8, 14);
  ec.data_seed = r.next() >> 12; ec.noise_seed = r.next() >> 12;
  ec.dt = 1.0; ec.temperature = 300.0; ec.forces_late = r.chance(0.5);
  ec.traj_amp = r.uniform(0.5, 1.4);
  ec.binary_state = r.chance(0.3);
  long T = r.range(10, thorough ? 90 : 40);
  TrajModel m; m.build(ec.data_seed, ec.natoms, ec.traj_amp, ec.force_amp, false);
  static const char *types[] = {"harmonic", "harmonic", "harmonic", "walls", "walls", "linear", "abmd", "histogram"};
  RestraintSpec sp;
  sp.type = types[r.below(8)]; sp.name = "r0";
  int ncv = sp.type == "abmd" ? 1 : (sp.type == "histogram" ? (int)r.range(1, 3) : (int)r.range(1, 2));
  std::vector<CvSpec> cvs;
  static const char *kinds[] = {"distance", "distanceZ", "dihedral", "angle", "distanceXY"};
  std::string sig = sp.type + ":";
  std::vector<std::pair<double, double>> rg;
  for (int i = 0; i < ncv; i++) {
    std::string kind = kinds[r.below(5)];
    if (sp.type == "linear" || sp.type == "abmd" || sp.type == "histogram") while (kind == "dihedral") kind = kinds[r.below(5)];
    if (sp.type == "histogram") while (kind == "dihedral" || kind == "angle") kind = kinds[r.below(5)];   // (observations of one random variable: lengths)
    CvSpec cv = make_cv(r, ec.natoms, kind, i ? "two" : "one");
    cv.width = kind == "dihedral" ? round3(r.uniform(5, 30)) : (kind == "angle" ? round3(r.uniform(2, 10)) : round3(r.uniform(0.1, 1.5)));
    double lo, hi; cv_range(cv, m, T, lo, hi);
    rg.emplace_back(lo, hi);
    cvs.push_back(cv);
    model::RCv rc; rc.name = cv.name; rc.width = cv.width; rc.periodic = cv.periodic();
    sp.cvs.push_back(rc);
    sig += (i ? "+" : "") + kind;
  }
  auto mid = [&](size_t i) { return 0.5 * (rg[i].first + rg[i].second); };
  auto span = [&](size_t i) { return std::max(1e-3, rg[i].second - rg[i].first); };
  sp.k = round3(r.uniform(0.5, 20.0));
  sp.nsteps = r.range(2, std::max(3L, T / 2));
  std::string body;
  if (sp.type == "histogram") {
    // grid in multiples of 1/8 (exact in binary, so that the number of bins is what it reads), covering most of the visited range
    double lo = 1e300, hi = -1e300; for (auto const &q : rg) { lo = std::min(lo, q.first); hi = std::max(hi, q.second); }
    int nb = (int)r.range(4, 10);
    sp.h_width = std::max(0.125, std::round((hi - lo) * r.uniform(0.7, 1.3) / nb * 8.0) / 8.0);
    sp.h_lower = std::floor((lo - r.uniform(-0.1, 0.2) * (hi - lo)) * 8.0) / 8.0;
    bool given_sigma = r.chance(0.5);
    sp.h_sigma = given_sigma ? round3(sp.h_width * r.uniform(0.5, 3.0)) : 2.0 * sp.h_width;
    sp.k = round3(r.uniform(1.0, 50.0));
    double sum = 0; for (int g = 0; g < nb; g++) { sp.h_ref.push_back(round3(r.uniform(0.0, 1.0))); sum += sp.h_ref.back(); }
    if (sum == 0) { sp.h_ref[0] = 1.0; sum = 1.0; }
    if (r.chance(0.5)) { for (double &v : sp.h_ref) v /= sum * sp.h_width; }   // already of unit integral (to the 12 digits of the text), or not
    else if (std::fabs(sum * sp.h_width - 1.0) < 0.05) { for (double &v : sp.h_ref) v = round3(v * 1.5 + 0.001); }   // (clearly not normalised: the implementation only rescales beyond a deviation of 1e-3)
    { std::vector<double> txt; for (double v : sp.h_ref) txt.push_back(strtod(num(v).c_str(), nullptr)); sp.h_ref = txt; }
    sp.h_documented_scale = r.chance(0.03);
    body = "histogramRestraint {\n  name r0\n  colvars " + join_names(cvs) + "\n  lowerBoundary " + num(sp.h_lower) + "\n  upperBoundary " + num(sp.h_lower + nb * sp.h_width) + "\n  width " + num(sp.h_width) + "\n" +
           (given_sigma ? "  gaussianSigma " + num(sp.h_sigma) + "\n" : "") + "  forceConstant " + num(sp.k) + "\n  refHistogram " + list(sp.h_ref) + "\n  outputEnergy on\n}\n";
    sig += std::string("|distribution") + (sp.h_documented_scale ? "/documented_scale" : "");
  } else if (sp.type == "abmd") {
    sp.decreasing = r.chance(0.5);
    sp.stopping = round3(r.chance(0.5) ? mid(0) + (sp.decreasing ? -0.2 : 0.2) * span(0) : (sp.decreasing ? rg[0].first - 0.1 * span(0) : rg[0].second + 0.1 * span(0)));
    body = "abmd {\n  name r0\n  colvars one\n  forceConstant " + num(sp.k) + "\n  stoppingValue " + num(sp.stopping) + "\n" + (sp.decreasing ? "  decreasing on\n" : "") + "}\n";
    sig += "|ratchet";
  } else {
    std::string kw = sp.type == "harmonic" ? "harmonic" : (sp.type == "walls" ? "harmonicWalls" : "linear");
    body = kw + " {\n  name r0\n  colvars " + join_names(cvs) + "\n";
    if (sp.type == "linear") sp.k = round3(r.uniform(-3, 3));
    if (sp.type != "walls") {
      for (size_t i = 0; i < cvs.size(); i++) sp.c0.push_back(round3(mid(i) + r.uniform(-0.6, 0.6) * span(i)));
      body += "  centers " + list(sp.c0) + "\n";
    } else {
      int which = (int)r.range(0, 2);
      bool any_periodic = false; for (auto &c : cvs) any_periodic = any_periodic || c.periodic();
      if (any_periodic) which = 0;
      for (size_t i = 0; i < cvs.size(); i++) {
        double a = round3(mid(i) - r.uniform(0.05, 0.45) * span(i)), b = round3(mid(i) + r.uniform(0.05, 0.45) * span(i));
        if (b <= a) { b = round3(a + 0.2 * span(i)); if (b <= a) b = round3(a + 0.001); }   // (every number of the configuration must survive its 12-digit text)
        if (which != 1) sp.lower.push_back(a);
        if (which != 2) sp.upper.push_back(b);
      }
      if (!sp.lower.empty()) body += "  lowerWalls " + list(sp.lower) + "\n";
      if (!sp.upper.empty()) body += "  upperWalls " + list(sp.upper) + "\n";
      if (which == 0 && r.chance(0.5)) {
        sp.lower_k = sp.k; sp.upper_k = round3(sp.k * r.uniform(0.3, 3.0));
        body += "  lowerWallConstant " + num(sp.lower_k) + "\n  upperWallConstant " + num(sp.upper_k) + "\n";
        sp.k = std::sqrt(sp.lower_k * sp.upper_k);
      }
    }
    bool explicit_k = !(sp.type == "walls" && sp.lower_k > 0);
    // what changes?
    double u = r.unit();
    std::string sched = "fixed";
    bool can_move_centers = sp.type == "harmonic";
    if (u < 0.3) sched = "fixed";
    else if (u < 0.5 && can_move_centers) sched = "centers";
    else if (u < 0.62 && can_move_centers) sched = "centers_staged";
    else if (u < 0.78) sched = "k";
    else if (u < 0.88) sched = "k_staged";
    else if (u < 0.94) sched = "k_lambda";
    else sched = "decoupling";
    if (sp.type == "linear" && (sched == "decoupling" || sched == "k_staged" || sched == "k_lambda")) sched = "k";
    if (explicit_k && sched != "decoupling") body += "  forceConstant " + num(sp.k) + "\n";
    if (sched == "decoupling") body += explicit_k ? "  forceConstant " + num(sp.k) + "\n" : "";
    if (sched == "centers" || sched == "centers_staged") {
      for (size_t i = 0; i < cvs.size(); i++) sp.c1.push_back(round3(mid(i) + r.uniform(-0.9, 0.9) * span(i)));
      body += "  targetCenters " + list(sp.c1) + "\n  targetNumSteps " + std::to_string(sp.nsteps) + "\n  outputCenters on\n";
      if (sched == "centers_staged") { sp.nstages = (int)r.range(2, 5); sp.nsteps = std::max(2L, sp.nsteps / 2); body.replace(body.find("targetNumSteps"), body.find('\n', body.find("targetNumSteps")) - body.find("targetNumSteps"), "targetNumSteps " + std::to_string(sp.nsteps)); body += "  targetNumStages " + std::to_string(sp.nstages) + "\n"; }
      else if (r.chance(0.7)) { sp.acc_work = true; body += "  outputAccumulatedWork on\n"; }
    } else if (sched == "k" || sched == "k_staged" || sched == "k_lambda") {
      sp.chg_k = true; sp.k1 = sp.type == "linear" ? round3(r.uniform(-3, 3)) : round3(r.uniform(0.0, 30.0));
      body += "  targetForceConstant " + num(sp.k1) + "\n";
      if (r.chance(0.5)) { sp.exponent = (double)r.range(1, 4); body += "  lambdaExponent " + num(sp.exponent) + "\n"; }
      if (sched == "k") { body += "  targetNumSteps " + std::to_string(sp.nsteps) + "\n"; if (r.chance(0.7)) { sp.acc_work = true; body += "  outputAccumulatedWork on\n"; } }
      else {
        sp.nsteps = std::max(3L, sp.nsteps / 2);
        body += "  targetNumSteps " + std::to_string(sp.nsteps) + "\n";
        if (sched == "k_staged") { sp.nstages = (int)r.range(2, 5); body += "  targetNumStages " + std::to_string(sp.nstages) + "\n"; }
        else { int n = (int)r.range(3, 6); for (int i = 0; i < n; i++) sp.lambdas.push_back(round3(r.uniform(0, 1))); std::sort(sp.lambdas.begin(), sp.lambdas.end()); body += "  lambdaSchedule " + list(sp.lambdas) + "\n"; }
        sp.equil = r.range(0, sp.nsteps - 1);
        body += "  targetEquilSteps " + std::to_string(sp.equil) + "\n";
      }
    } else if (sched == "decoupling") {
      sp.decoupling = true; sp.exponent = (double)r.range(1, 4);
      body += "  decoupling on\n  lambdaExponent " + num(sp.exponent) + "\n";
      if (r.chance(0.5)) { sp.nstages = (int)r.range(2, 4); sp.nsteps = std::max(3L, sp.nsteps / 2); body += "  targetNumStages " + std::to_string(sp.nstages) + "\n"; }
      else if (r.chance(0.6)) { sp.acc_work = true; body += "  outputAccumulatedWork on\n"; }
      body += "  targetNumSteps " + std::to_string(sp.nsteps) + "\n";
    }
    body += "  outputEnergy on\n}\n";
    sig += "|" + sched;
  }
  std::string config = global_config(1, (int)r.range(3, 12), false);
  for (auto &c : cvs) config += c.config();
  config += body;
  J plan = J::obj();
  plan["v"] = 1; plan["property"] = "C06"; plan["seed"] = (long long)seed;
  J sc = J::obj();
  sc["template"] = sig;
  J e = J::obj(); ec.to_json(e); sc["engine"] = e;
  sc["T"] = (long long)T; sc["config"] = config; sc["spec"] = sp.to_json();
  plan["scenario"] = sc;
  // segmentation
  J ops = J::arr();
  int nseg = (int)r.range(1, 4);
  long cur = 0;
  for (int s = 0; s < nseg && cur < T; s++) {
    long n;
    if (s == nseg - 1) n = T - cur;
    else if (r.chance(0.35) && sp.nsteps > 0) { long b = sp.first + sp.nsteps * r.range(1, 4) + (r.chance(0.5) ? 1 : 0); n = std::max(1L, std::min(T - cur - 1, b - cur)); }
    else n = r.range(1, std::max(1L, T - cur - 1));
    if (n <= 0) break;
    J op = J::obj(); op["w"] = 0; op["op"] = "run"; op["n"] = (long long)n; op["end"] = "graceful";
    ops.push(op);
    cur += n;
    if (s < nseg - 1 && r.chance(0.5)) { J rs = J::obj(); rs["w"] = 0; rs["op"] = "resume"; ops.push(rs); }
  }
  plan["ops"] = ops;
  return plan;
}

struct TrajCols { std::vector<std::string> labels; std::map<long, std::vector<double>> rows; };

// parse a colvars.traj: label lines start with '#'; multiple label lines allowed (the last one before a row applies)
void parse_traj(std::string const &txt, std::vector<std::pair<std::vector<std::string>, std::pair<long, std::vector<double>>>> &out) {
  std::istringstream is(txt);
  std::string line; std::vector<std::string> labels;
  while (std::getline(is, line)) {
    if (line.empty()) continue;
    std::istringstream ls(line);
    if (line[0] == '#') { labels.clear(); std::string t; ls >> t; while (ls >> t) labels.push_back(t); continue; }
    long step; if (!(ls >> step)) continue;
    std::vector<double> v; double x; while (ls >> x) v.push_back(x);
    out.push_back({labels, {step, v}});
  }
}

RunResult run(J const &plan) {
  RunResult res;
  EngineCfg ec; std::string config; long T;
  scenario_from_json(plan.at("scenario"), ec, config, T);
  RestraintSpec sp; sp.from_json(plan.at("scenario").at("spec"));
  model::RestraintModel M(sp);
  SimRun sim(1);
  uint64_t fp = 1469598103934665603ULL;
  std::unique_ptr<Engine> e(new Engine(ec));
  if (e->configure(config) != COLVARS_OK || cvm::get_error()) { res.counters["probe.invalid_config"]++; res.detail = e->last_error(); sim.finish(res); return res; }
  // staged TI lines of the log: "Restraint r0 Lambda= <lambda> dA/dLambda= <mean>" at the end of every stage
  struct TiLine { long step; double lam, val; bool after_resume; };
  std::vector<TiLine> ti_lines; size_t log_seen = 0; int n_resumes_so_far = 0;
  std::set<int> stage_with_repeat, stage_with_resume;
  auto hook_log = [&](Engine *ep) {
    ep->cfg.log_keep = 1000000; log_seen = 0;
    ep->after_step = [&, ep](long step) {
      for (; log_seen < ep->log_lines.size(); log_seen++) {
        std::string const &l = ep->log_lines[log_seen];
        size_t a = l.find("Restraint r0 Lambda="), b = l.find("dA/dLambda=");
        if (a == std::string::npos || b == std::string::npos) continue;
        TiLine t; t.step = step; t.lam = strtod(l.c_str() + a + 20, nullptr); t.val = strtod(l.c_str() + b + 11, nullptr); t.after_resume = n_resumes_so_far > 0;
        ti_lines.push_back(t);
      }
    };
  };
  hook_log(e.get());
  std::map<long, model::RestraintOut> expect;   // by step (last presentation)
  long cur = 0; int nres = 0, nseg = 0;
  std::string kinds;
  size_t ncv = sp.cvs.size();
  auto check_new = [&](size_t from) {
    for (size_t i = from; i < e->rec.size() && !res.violation; i++) {
      StepRec const &s = e->rec[i];
      std::vector<double> x(s.cv.begin(), s.cv.begin() + (long)std::min(ncv, s.cv.size()));
      bool repeated = expect.count(s.step) > 0;
      if (repeated && sp.nsteps > 0 && s.step > sp.first) stage_with_repeat.insert((int)((s.step - sp.first - 1) / sp.nsteps));
      model::RestraintOut o = M.step(s.step, x, repeated);
      expect[s.step] = o;
      std::string where = std::string(sp.type == "histogram" ? (sp.h_documented_scale ? "histogram_restraint_documented_scale/" : "histogram_restraint/") : "") + (nres ? "after_resume" : (nseg > 1 ? "later_segment" : "first_segment"));
      double be = s.bias_e.empty() ? 0 : s.bias_e[0];
      double tol = 1e-9 * (1 + std::fabs(o.energy));
      if (std::fabs(be - o.energy) > tol) { res.fail("restraint_model", "energy/" + where, "step " + std::to_string(s.step) + " energy " + fmt_double(be) + " model " + fmt_double(o.energy) + " (k " + fmt_double(o.k) + ", centre " + (o.centers.empty() ? "-" : fmt_double(o.centers[0])) + ")"); break; }
      for (size_t c = 0; c < ncv && c < s.cv_fa.size(); c++)
        if (std::fabs(s.cv_fa[c] - o.force[c]) > 1e-9 * (1 + std::fabs(o.force[c]))) { res.fail("restraint_model", "force/" + where, "step " + std::to_string(s.step) + " force on variable " + std::to_string(c) + " " + fmt_double(s.cv_fa[c]) + " model " + fmt_double(o.force[c])); break; }
      fp = fnv_dbl(be, fp);
    }
  };
  for (auto const &op : plan.at("ops").a) {
    if (res.violation) break;
    std::string k = op.at("op").as_str();
    if (k == "run") {
      long n = std::min((long)op.at("n").as_int(1), T - cur);
      if (n < 0) continue;
      size_t from = e->rec.size();
      nseg++;
      e->run((int)n, true);
      cur += n; kinds += "r";
      check_new(from);
    } else if (k == "resume" && nseg > 0) {
      add_steps(res, *e);
      std::string traj_keep;
      e.reset();
      e.reset(new Engine(ec));
      e->configure(config);
      cvm::clear_error();
      if (e->load_state("/simfs/w0/out") != COLVARS_OK || cvm::get_error()) { res.fail("restraint_model", "load_error", e->last_error()); break; }
      nres++; kinds += "R"; nseg = 0; n_resumes_so_far++;
      hook_log(e.get());
      // the stage in progress when the run stopped (its accumulator has to survive the restart)
      if (sp.nsteps > 0 && cur > sp.first && (cur - sp.first) % sp.nsteps != 0) stage_with_resume.insert((int)((cur - sp.first) / sp.nsteps));
    }
  }
  // staged TI output: every line is the mean of dU/dlambda over the post-equilibration steps of its stage
  {
    int S = M.stages();
    if (!res.violation && S > 0 && (sp.chg_k || sp.decoupling) && sp.nsteps > 0) {
      std::set<int> seen_stage;
      for (auto const &t : ti_lines) {
        if (res.violation) break;
        long rel = t.step - sp.first;
        std::string at = "line printed at step " + std::to_string(t.step) + " (Lambda= " + fmt_double(t.lam) + " dA/dLambda= " + fmt_double(t.val) + ")";
        if (rel <= 0 || rel % sp.nsteps != 0) { res.fail("restraint_model", "ti/line_at_a_step_that_ends_no_stage", at); break; }
        int st = (int)(rel / sp.nsteps) - 1;
        if (seen_stage.count(st)) { res.fail("restraint_model", "ti/two_lines_for_one_stage", at); break; }
        seen_stage.insert(st);
        auto it = M.ti.find(st);
        double lam = M.lambda_of(std::min(st, S));
        if (std::fabs(t.lam - lam) > 2e-5 * (1 + std::fabs(lam))) { res.fail("restraint_model", "ti/lambda", at + ": lambda point " + std::to_string(st) + " of the schedule is " + fmt_double(lam)); break; }
        if (it == M.ti.end() || it->second.n == 0) { res.counters["probe.ti_lines_for_stages_without_samples"]++; continue; }
        double mean = it->second.sum / (double)it->second.n;
        if (std::fabs(t.val - mean) > 2e-5 * std::max(std::fabs(mean), it->second.scale) + 1e-12) {
          std::string why = stage_with_resume.count(st) ? "/stage_spans_a_restart" : stage_with_repeat.count(st) ? "/stage_spans_a_run_boundary" : (st == 0 && sp.equil == 0) ? "/first_stage_without_equilibration" : "";
          res.fail("restraint_model", "ti/mean_differs" + why, at + ": the mean of dU/dlambda over the " + std::to_string(it->second.n) + " counted steps of stage " + std::to_string(st) + " is " + fmt_double(mean));
          break;
        }
        res.counters["probe.ti_lines_checked"]++;
      }
    }
  }
  // state: centres, force constant, accumulated work
  if (!res.violation && !expect.empty() && sp.type != "abmd" && sp.type != "histogram") {
    std::string st = e->save_state_string();
    model::RestraintOut const &o = expect.rbegin()->second;
    auto keyval = [&](std::string const &key, std::vector<double> &out) {
      size_t p = st.find("name r0"); if (p == std::string::npos) return false;
      size_t q = st.find(key, p); size_t end = st.find("\n}", p);
      if (q == std::string::npos || q > end) return false;
      std::istringstream is(st.substr(q + key.size(), st.find('\n', q) - q - key.size()));
      double v; out.clear(); while (is >> v) out.push_back(v);
      return !out.empty();
    };
    std::vector<double> v;
    if (!sp.c1.empty() && keyval("centers", v)) {
      for (size_t i = 0; i < v.size() && i < o.centers.size(); i++)
        if (std::fabs(model::pdiff(v[i], o.centers[i], sp.cvs[i].periodic)) > 1e-9 * (1 + std::fabs(o.centers[i]))) res.fail("restraint_model", "state_centers", "state centre " + fmt_double(v[i]) + " model " + fmt_double(o.centers[i]));
    }
    if ((sp.chg_k || sp.decoupling) && keyval("forceConstant", v) && std::fabs(v[0] - o.k) > 1e-9 * (1 + std::fabs(o.k))) res.fail("restraint_model", "state_force_constant", "state k " + fmt_double(v[0]) + " model " + fmt_double(o.k));
    if (sp.acc_work && keyval("accumulatedWork", v) && std::fabs(v[0] - o.work) > 1e-8 * (1 + std::fabs(o.work))) res.fail("restraint_model", std::string("state_accumulated_work") + (nres ? "/after_resume" : ""), "state W " + fmt_double(v[0]) + " model " + fmt_double(o.work));
  }
  // trajectory columns (only the part written by the last instance is on disk under this name after a resume;
  // rows are checked against the model's value for their step)
  if (!res.violation) {
    std::string traj;
    if (fs().get("/simfs/w0/out.colvars.traj", traj)) {
      std::vector<std::pair<std::vector<std::string>, std::pair<long, std::vector<double>>>> rows;
      parse_traj(traj, rows);
      for (auto const &rw : rows) {
        auto it = expect.find(rw.second.first);
        if (it == expect.end()) continue;
        std::vector<std::string> const &lab = rw.first;
        // labels: "step", then one label per column (scalar variables only here)
        for (size_t c = 1; c < lab.size() && c - 1 < rw.second.second.size() && !res.violation; c++) {
          double v = rw.second.second[c - 1];
          if (lab[c].compare(0, 3, "x0_") == 0 && sp.type != "abmd") {
            std::string nm = lab[c].substr(3);
            for (size_t i = 0; i < sp.cvs.size(); i++) if (sp.cvs[i].name == nm && i < it->second.centers.size())
              if (std::fabs(model::pdiff(v, it->second.centers[i], sp.cvs[i].periodic)) > 1e-9 * (1 + std::fabs(v))) res.fail("restraint_model", "traj_centers", "step " + std::to_string(rw.second.first) + " x0_" + nm + " " + fmt_double(v) + " model " + fmt_double(it->second.centers[i]));
            res.counters["probe.traj_centre_cells"]++;
          }
          if (lab[c] == "W_r0" && sp.acc_work) {
            // the value at a repeated step is the one of its last presentation
            if (std::fabs(v - it->second.work) > 1e-8 * (1 + std::fabs(v))) res.fail("restraint_model", std::string("traj_work") + (nres ? "/after_resume" : ""), "step " + std::to_string(rw.second.first) + " W " + fmt_double(v) + " model " + fmt_double(it->second.work));
            res.counters["probe.traj_work_cells"]++;
          }
        }
      }
    }
  }
  add_steps(res, *e);
  e.reset();
  res.nontrivial = !expect.empty();
  res.class_hash = fnv_str(kinds, fnv_str(plan.at("scenario").at("template").as_str(), 6));
  res.counters["probe.resumes"] += nres; res.counters["fault.stop_and_resume"] += nres;
  res.fingerprint = fp;
  if (res.violation) res.features = plan.at("scenario").at("template").as_str();
  sim.finish(res);
  return res;
}

Property make() {
  Property p;
  p.id = "C06"; p.level = "exploration"; p.design_ref = "DESIGN.md §7 C06";
  p.rule = "plan = one restraint (harmonic, harmonicWalls with one or two walls and separate constants, linear, ABMD) on 1-2 scalar variables (periodic included) with a "
           "fixed, continuous, staged, lambda-schedule or decoupling schedule for centres or force constant, over 10-90 steps cut into 1-4 segments (run boundaries, "
           "stage boundaries +0/+1, stop/resume through a text or binary state); non-trivial = at least one step compared; distinct = hash of (restraint type, "
           "variable kinds, schedule kind, segmentation)";
  p.rule += " Later additions: the dA/dLambda log line of every stage of a staged force-constant schedule is compared with the mean of dU/dlambda over that stage's post-equilibration steps; histogramRestraint on 1-3 variables against the documented integral (times the implementation's M/width: recorded finding; 3% of the plans without that factor).";
  p.assumptions = {"the model takes the variable values Colvars reports as input (C02 is not re-decided here)",
                   "histogramRestraint is not covered by this check",
                   "tolerance 1e-9 relative (different summation order only)"};
  p.real_components = {"colvarbias_restraint* (harmonic, harmonic_walls, linear, moving centres/k, accumulated work)", "colvarbias_abmd", "colvar::dist2/dist2_lgrad for periodic variables", "trajectory and state writers"};
  p.stub_components = {"MD engine (kinematic)", "file system (sim::FS)"};
  p.gen = gen; p.run = run;   // the configuration text and the model's spec go together: no configuration shrinking
  p.quick_runs = 3000; p.thorough_runs = 100000; p.quick_secs = 60; p.thorough_secs = 900;
  return p;
}
Registrar reg(make());

}  // namespace
