// C19 — written outputs faithfully describe the internal state at the stated step.
//
// Workload: 1-3 variables with output flags (value, velocity, total force, applied force) and
// optional running averages, 1-3 biases (restraints with outputEnergy / outputCenters /
// outputAccumulatedWork, metadynamics, ABF, histogram), trajectory frequency 1-5, several run
// segments (each later one repeats its first step), biases defined or deleted between segments
// (the label line must follow), optionally a stop and a restart of a fresh instance that writes
// to a new prefix.
// Reference: what the engine recorded at every step through the object interface (values,
// applied/total forces, bias energies), finite-difference velocities, the documented centre
// schedule and work integral of a moving restraint, and the textbook running mean / standard
// deviation of the recorded values.
// Oracle on the files left in the simulated file system: every data line of the trajectory has
// as many columns as the preceding label line announces, the labels are exactly the columns the
// configuration asks for, in object order; the data lines are, in order, exactly the evaluated
// steps that are multiples of the frequency (one line each, per run); every column equals the
// recorded quantity at that step (14 digits); the running-average file holds mean and standard
// deviation of the last L strided samples.
#include "simrun.h"
#include "scenario.h"

#include <cmath>
#include <memory>
#include <set>
#include <sstream>

using namespace sim;

namespace {

const char *k_tmpl[] = {"harm_fixed", "harm_cmove", "harm_kmove", "walls_fixed", "linear_fixed", "meta_grid", "abf", "histogram", "harm_cmove", "harm_fixed", "harm_cstage"};

struct CvOut { std::string name; bool periodic = false; bool vel = false, ft = false, fa = false; bool runave = false; int ra_len = 0, ra_stride = 1; bool cf = false, cf_norm = false, cf_vel = false; int cf_len = 0, cf_stride = 1; std::string cf_with; };

J gen(uint64_t seed, bool thorough) {
  Rng r(seed, 19);
  EngineCfg ec;
  ec.natoms = (int)r.range(10, 16);
  ec.data_seed = r.next() >> 12; ec.noise_seed = r.next() >> 12;
  ec.dt = r.chance(0.5) ? 1.0 : 2.0; ec.temperature = 300.0; ec.forces_late = r.chance(0.4);
  ec.traj_amp = r.uniform(0.4, 1.0);
  TrajModel m; m.build(ec.data_seed, ec.natoms, ec.traj_amp, ec.force_amp, false);
  long T = thorough ? 70 : 40;
  J plan = J::obj();
  plan["v"] = 1; plan["property"] = "C19"; plan["seed"] = (long long)seed;
  J sc = J::obj();
  J e = J::obj(); ec.to_json(e); sc["engine"] = e;
  int freq = (int)r.range(1, 5);
  sc["freq"] = freq;
  sc["T"] = (long long)T;
  static const char *kinds[] = {"distance", "distanceZ", "dihedral", "angle", "distanceXY"};
  int ncv = (int)r.range(1, 3);
  std::vector<CvSpec> cvs; std::vector<std::pair<double, double>> ranges;
  J jcv = J::arr(); std::string cvtext, sig;
  for (int i = 0; i < ncv; i++) {
    CvSpec c = make_cv(r, ec.natoms, kinds[r.below(5)], "v" + std::to_string(i));
    place_grid(c, m, T, r, (int)r.range(5, 10), 1.3);
    double lo, hi; cv_range(c, m, T, lo, hi);
    J o = J::obj(); o["name"] = c.name; o["periodic"] = c.periodic();
    bool vel = r.chance(0.4), ft = r.chance(0.3), fa = r.chance(0.5), ra = r.chance(0.35);
    if (vel) c.extra += "  outputVelocity on\n";
    if (ft) c.extra += "  outputTotalForce on\n";
    if (fa) c.extra += "  outputAppliedForce on\n";
    int len = (int)r.range(2, 6), stride = (int)r.range(1, 3);
    if (ra) c.extra += "  runAve on\n  runAveLength " + std::to_string(len) + "\n  runAveStride " + std::to_string(stride) + "\n";
    o["vel"] = vel; o["ft"] = ft; o["fa"] = fa; o["runave"] = ra; o["ra_len"] = len; o["ra_stride"] = stride;
    bool cf = !c.periodic() && r.chance(0.3);
    int cf_len = (int)r.range(2, 6), cf_stride = (int)r.range(1, 3); bool cf_norm = r.chance(0.5);
    // (the partner of a cross-correlation must already exist when this variable is defined: an earlier non-periodic one)
    std::string cf_with; if (cf && i > 0 && r.chance(0.3)) { for (int q = 0; q < i; q++) if (!cvs[(size_t)q].periodic()) cf_with = cvs[(size_t)q].name; }
    bool cf_vel = cf && r.chance(0.35);   // velocity correlation function (finite-difference velocities) instead of the coordinate one
    if (cf) { c.extra += std::string("  corrFunc on\n  corrFuncType ") + (cf_vel ? "velocity" : "coordinate") + "\n  corrFuncLength " + std::to_string(cf_len) + "\n  corrFuncStride " + std::to_string(cf_stride) + "\n  corrFuncNormalize " + (cf_norm ? "on" : "off") + "\n"; if (!cf_with.empty()) c.extra += "  corrFuncWithColvar " + cf_with + "\n"; }
    o["cf"] = cf; o["cf_vel"] = cf_vel; o["cf_len"] = cf_len; o["cf_stride"] = cf_stride; o["cf_norm"] = cf_norm; o["cf_with"] = cf_with;
    jcv.push(o); cvs.push_back(c); ranges.push_back({lo, hi}); cvtext += c.config();
    sig += std::string("C") + (vel ? "v" : "") + (ft ? "t" : "") + (fa ? "a" : "") + (ra ? "R" : "") + (cf ? (cf_with.empty() ? "K" : "X") : "");
  }
  sc["cvs"] = cvtext; sc["cvout"] = jcv;
  {
    // the correlation function is only written together with the periodic restart file: give the run a restart frequency
    // that every corrFuncStride divides (the library insists on it)
    long R = 0; for (auto const &o : jcv.a) if (o.at("cf").as_bool()) { long st = (long)o.at("cf_stride").as_int(); R = R ? R * st / std::__gcd(R, st) : st; }
    if (R) R *= r.range(1, 3);
    sc["restart_freq"] = (long long)R;
    sc["config"] = global_config(freq, (int)R, false);
  }
  int nbias = 0;
  auto mk_bias = [&](J &op) {
    std::string t, name = "b" + std::to_string(nbias++);
    for (;;) {
      t = k_tmpl[r.below(sizeof k_tmpl / sizeof *k_tmpl)];
      int k = std::min<int>(ncv, std::min(2, bias_template_max_cv(t)));
      if (t == "abf" || t == "harm_cmove" || t == "harm_cstage") k = 1;
      k = (int)r.range(1, k);
      std::vector<size_t> idx; for (size_t q = 0; q < cvs.size(); q++) idx.push_back(q);
      for (size_t q = idx.size() - 1; q > 0; q--) std::swap(idx[q], idx[r.below(q + 1)]);
      idx.resize((size_t)k);
      bool per = false; for (size_t q : idx) per = per || cvs[q].periodic();
      if (per && (t.rfind("linear", 0) == 0 || t.rfind("walls", 0) == 0 || t == "harm_cmove" || t == "harm_cstage")) continue;
      std::vector<CvSpec> sub; std::vector<std::pair<double, double>> rg;
      for (size_t q : idx) { sub.push_back(cvs[q]); rg.push_back(ranges[q]); }
      std::string cfg = make_bias(t, r, sub, rg, T, name).config; size_t p;
      while ((p = cfg.find("  writeTI")) != std::string::npos) cfg.erase(p, cfg.find('\n', p) - p + 1);
      if ((p = cfg.find("  timeStepFactor")) != std::string::npos) cfg.erase(p, cfg.find('\n', p) - p + 1);
      op["name"] = name; op["tmpl"] = t; op["config"] = cfg; op["w"] = 0;
      J cv = J::arr(); for (size_t q : idx) cv.push(cvs[q].name); op["cvs"] = cv;
      sig += "B";
      return;
    }
  };
  J ops = J::arr();
  int nb0 = (int)r.range(1, 2);
  for (int i = 0; i < nb0; i++) { J op = J::obj(); op["op"] = "addbias"; mk_bias(op); ops.push(op); }
  std::vector<std::string> live; for (auto const &o : ops.a) live.push_back(o.at("name").as_str());
  long left = T; int nseg = (int)r.range(1, 4); int prefix_n = 0;
  for (int s = 0; s < nseg && left > 0; s++) {
    long n = s == nseg - 1 ? left : r.range(1, std::max<long>(1, left - (nseg - 1 - s)));
    J op = J::obj(); op["w"] = 0; op["op"] = "run"; op["n"] = (long long)n; ops.push(op); left -= n; sig += "r";
    if (s < nseg - 1) {
      double u = r.unit();
      if (u < 0.25 && live.size() < 3) { J o2 = J::obj(); o2["op"] = "addbias"; mk_bias(o2); ops.push(o2); live.push_back(o2.at("name").as_str()); }
      else if (u < 0.45 && !live.empty()) { size_t q = r.below(live.size()); J o2 = J::obj(); o2["w"] = 0; o2["op"] = "delbias"; o2["name"] = live[q]; ops.push(o2); live.erase(live.begin() + (long)q); sig += "d"; }
      else if (u < 0.65) { J o2 = J::obj(); o2["w"] = 0; o2["op"] = "restart"; o2["prefix"] = "seg" + std::to_string(++prefix_n); ops.push(o2); sig += "S"; }
      else if (u < 0.8) { J o2 = J::obj(); o2["w"] = 0; o2["op"] = "reload"; ops.push(o2); sig += "L"; }   // the live instance saves its state to a string and loads it back (checkpoint/rollback scripts do this)
    }
  }
  sc["template"] = sig.size() > 28 ? sig.substr(0, 28) : sig;
  plan["scenario"] = sc;
  plan["ops"] = ops;
  return plan;
}

struct Row { long step; bool repeated; bool first_of_instance; std::map<std::string, double> col; std::vector<std::string> order; };   // expected columns by label

double wrapd(double d, bool periodic) { if (!periodic) return d; d = std::fmod(d, 360.0); if (d > 180) d -= 360; if (d < -180) d += 360; return d; }
bool close_enough(double a, double b, double rtol, double atol) { if (std::isnan(a) && std::isnan(b)) return true; return std::fabs(a - b) <= atol + rtol * std::max(std::fabs(a), std::fabs(b)); }
double cfgnum(std::string const &cfg, std::string const &key, double def = 0) { size_t p = cfg.find("  " + key + " "); if (p == std::string::npos) return def; return strtod(cfg.c_str() + p + key.size() + 3, nullptr); }

struct BiasInfo { std::string name, tmpl, config; std::vector<std::string> cvs; long defined_at = 0; double work = 0; double prev_c = 0; bool have_prev = false; };

RunResult run(J const &plan) {
  RunResult res;
  J const &sc = plan.at("scenario");
  EngineCfg ec; std::string config; long T;
  scenario_from_json(sc, ec, config, T);
  long freq = (long)sc.at("freq").as_int(1);
  std::vector<CvOut> cvo;
  for (auto const &o : sc.at("cvout").a) { CvOut c; c.name = o.at("name").as_str(); c.periodic = o.at("periodic").as_bool(); c.vel = o.at("vel").as_bool(); c.ft = o.at("ft").as_bool(); c.fa = o.at("fa").as_bool(); c.runave = o.at("runave").as_bool(); c.ra_len = (int)o.at("ra_len").as_int(); c.ra_stride = (int)o.at("ra_stride").as_int(); c.cf = o.at("cf").as_bool(); c.cf_vel = o.at("cf_vel").as_bool(); c.cf_norm = o.at("cf_norm").as_bool(); c.cf_len = (int)o.at("cf_len").as_int(); c.cf_stride = (int)o.at("cf_stride").as_int(); c.cf_with = o.at("cf_with").as_str(); cvo.push_back(c); }
  SimRun sim(1);
  std::string prefix = "/simfs/w0/out";
  std::unique_ptr<Engine> e(new Engine(ec));
  std::string conf = config + sc.at("cvs").as_str();
  if (e->configure(conf) != COLVARS_OK || cvm::get_error()) { res.counters["probe.configuration_refused"]++; res.detail = e->last_error(); sim.finish(res); return res; }
  std::map<std::string, BiasInfo> binfo;
  std::map<std::string, std::vector<Row>> rows;       // per output prefix
  std::map<std::string, std::vector<std::pair<long, double>>> series;   // per variable: (relative step, value) of every evaluated step of the current instance
  std::map<std::string, std::map<std::string, std::vector<std::pair<long, double>>>> series_by_prefix, vseries_by_prefix;   // values, and finite-difference velocities (the harness's own)
  long last_step = -1; bool first_of_instance = true;
  std::set<std::string> errored;
  std::map<std::string, std::set<std::string>> slept;   // per instance: variables that were not evaluated at some evaluation
  std::map<std::string, long> first_step_of, last_step_of, last_base_of;
  std::map<std::string, std::map<std::string, std::vector<long>>> series_abs;   // absolute step of each series entry
  long const restart_freq = (long)sc.at("restart_freq").as_int(0);
  std::map<std::string, double> prev_val; bool have_prev = false;
  long instance_first_step = 0;
  std::string wpre = prefix;
  auto hook = [&](Engine *ep) {
    ep->after_step = [&, ep](long step) {
      StepRec const &r = ep->rec.back();
      // a step that raises an error (e.g. the restart consistency test tripping over a variable that was asleep when the state was
      // written — C13 finding) aborts the calculation half-way: what such a run writes is not judged
      if (r.err) { if (!errored.count(wpre)) res.counters["probe.instances_with_step_errors"]++; errored.insert(wpre); }
      if (!first_step_of.count(wpre)) first_step_of[wpre] = step;
      last_step_of[wpre] = step; last_base_of[wpre] = instance_first_step;
      Row row; row.step = step; row.repeated = step == last_step; row.first_of_instance = first_of_instance;
      size_t k = 0;
      for (colvar *cv : *ep->colvars->variables()) {
        CvOut const *co = nullptr; for (auto const &c : cvo) if (c.name == cv->name) co = &c;
        double x = r.cv[(size_t)r.cv_off[k]];
        bool asleep = !cv->is_enabled();   // (a variable that lost its last bias is no longer evaluated — C13 finding: its columns are stale, not checked)
        if (asleep) slept[wpre].insert(cv->name);
        row.col[cv->name] = asleep ? NAN : x; row.order.push_back(cv->name);
        if (co && co->vel) { row.col["v_" + cv->name] = asleep || std::isnan(prev_val[cv->name]) ? NAN : have_prev && !row.repeated ? wrapd(x - prev_val[cv->name], co->periodic) / ec.dt : 0.0; row.order.push_back("v_" + cv->name); }
        if (co && co->ft) { row.col["ft_" + cv->name] = asleep ? NAN : r.cv_ft[(size_t)r.cv_off[k]]; row.order.push_back("ft_" + cv->name); }
        if (co && co->fa) { row.col["fa_" + cv->name] = asleep ? NAN : r.cv_fa[(size_t)r.cv_off[k]]; row.order.push_back("fa_" + cv->name); }
        {
          auto &ser = series_by_prefix[wpre][cv->name];
          if (!row.repeated) {
            ser.push_back({step - instance_first_step, asleep ? NAN : x}); series_abs[wpre][cv->name].push_back(step);
            double v = asleep || std::isnan(prev_val[cv->name]) ? NAN : have_prev ? wrapd(x - prev_val[cv->name], co && co->periodic) / ec.dt : 0.0;
            vseries_by_prefix[wpre][cv->name].push_back({step - instance_first_step, v});
          }
          else if (!ser.empty() && ser.back().first == step - instance_first_step && std::isnan(ser.back().second) && !asleep) ser.back().second = x;   // slept through the first evaluation of this step
        }
        k++;
      }
      k = 0;
      for (colvarbias *b : ep->colvars->biases) {
        auto it = binfo.find(b->name);
        if (it != binfo.end()) {
          BiasInfo &bi = it->second;
          if (bi.config.find("outputEnergy on") != std::string::npos) { row.col["E_" + b->name] = r.bias_e[k]; row.order.push_back("E_" + b->name); }
          if (bi.config.find("outputCenters on") != std::string::npos) {
            // the documented schedule: centres move linearly from `centers` to `targetCenters` over targetNumSteps steps, counted from the step the bias was defined at
            double c0 = cfgnum(bi.config, "centers"), c1 = cfgnum(bi.config, "targetCenters", c0); long N = (long)cfgnum(bi.config, "targetNumSteps", 0);
            long S = (long)cfgnum(bi.config, "targetNumStages", 0);
            double lam = N > 0 ? std::min(1.0, std::max(0.0, (double)(step - bi.defined_at) / (double)N)) : 0.0;
            if (S > 0 && N > 0) {
              // staged: the centres stand still for targetNumSteps steps, then jump to the next of targetNumStages equally spaced positions
              long t = step - bi.defined_at, m = t >= 1 ? (t - 1) / N + 1 : 0, st = std::max(0L, std::min(m, S + 1) - 1);
              lam = (double)st / (double)S;
            }
            double c = (bi.tmpl == "harm_cmove" || bi.tmpl == "harm_cstage") ? c0 + lam * (c1 - c0) : c0;
            for (auto const &cvn : bi.cvs) { row.col["x0_" + cvn + "@" + b->name] = c; row.order.push_back("x0_" + cvn); }
            if (bi.tmpl == "harm_cmove" && S > 0 && bi.config.find("outputAccumulatedWork on") != std::string::npos) { row.order.push_back("W_" + b->name); row.col["W_" + b->name] = NAN; }
            else if (bi.tmpl == "harm_cmove" && bi.config.find("outputAccumulatedWork on") != std::string::npos) {
              double K = cfgnum(bi.config, "forceConstant"), w = 1.0; for (colvar *cv : *ep->colvars->variables()) if (cv->name == bi.cvs[0]) w = cv->width;
              double x = row.col[bi.cvs[0]];
              if (bi.have_prev && !row.repeated && !row.first_of_instance && step - bi.defined_at <= N) bi.work += (-K / (w * w) * (x - c)) * (c - bi.prev_c);
              row.col["W_" + b->name] = bi.work; row.order.push_back("W_" + b->name);
            }
            bi.prev_c = c; bi.have_prev = true;
          } else if (bi.config.find("outputAccumulatedWork on") != std::string::npos) { row.order.push_back("W_" + b->name); row.col["W_" + b->name] = NAN; }
        }
        k++;
      }
      if (getenv("CVSIM_C19_TRACE")) { fprintf(stderr, "rec pre=%s step=%ld rep=%d first=%d have_prev=%d", wpre.c_str(), step, (int)row.repeated, (int)row.first_of_instance, (int)have_prev); for (auto const &kv : row.col) fprintf(stderr, " %s=%.6g", kv.first.c_str(), kv.second); for (colvar *cv : *ep->colvars->variables()) fprintf(stderr, " [%s en=%d actual=%.6g p0=%.4f]", cv->name.c_str(), (int)cv->is_enabled(), cv->actual_value().real_value, ep->last_pos.empty() ? 0.0 : ep->last_pos[2].x); fprintf(stderr, "\n"); }
      if (step % freq == 0) rows[wpre].push_back(row);
      for (colvar *cv : *ep->colvars->variables()) prev_val[cv->name] = row.col[cv->name];   // (NaN while asleep)
      have_prev = true; last_step = step; first_of_instance = false;
    };
  };
  hook(e.get());
  std::vector<std::string> prefixes{wpre};
  for (auto const &op : plan.at("ops").a) {
    std::string k = op.at("op").as_str();
    cvm::clear_error();
    if (k == "run") e->run((int)op.at("n").as_int(1), true);
    else if (k == "addbias") {
      bool ok = true; for (auto const &c : op.at("cvs").a) if (!cvm::colvar_by_name(c.as_str())) ok = false;
      if (!ok) continue;
      if (e->run_script({"cv", "config", op.at("config").as_str()}) != COLVARS_OK || cvm::get_error()) { cvm::clear_error(); res.counters["probe.definition_refused"]++; continue; }
      BiasInfo bi; bi.name = op.at("name").as_str(); bi.tmpl = op.at("tmpl").as_str(); bi.config = op.at("config").as_str(); for (auto const &c : op.at("cvs").a) bi.cvs.push_back(c.as_str());
      bi.defined_at = e->rec.empty() ? 0 : (long)cvm::step_absolute();
      binfo[bi.name] = bi;
    } else if (k == "delbias") {
      if (cvm::bias_by_name(op.at("name").as_str())) { e->run_script({"cv", "bias", op.at("name").as_str(), "delete"}); binfo.erase(op.at("name").as_str()); }
    } else if (k == "reload") {
      if (e->rec.empty()) continue;
      std::string st; if (e->run_script({"cv", "savetostring"}, &st) == COLVARS_OK) e->run_script({"cv", "loadfromstring", st});
      cvm::clear_error();
      instance_first_step = (long)cvm::step_absolute();   // relative steps (running-average labels and strides) count from the last state load
      res.counters["probe.live_reloads"]++; res.counters["fault.live_reload"]++;
    } else if (k == "restart") {
      if (e->rec.empty()) continue;
      long at_step = (long)cvm::step_absolute();
      std::string state_prefix = wpre;
      // what exists now is re-created in the fresh instance
      std::string conf2 = conf; for (colvarbias *b : e->colvars->biases) { auto it = binfo.find(b->name); if (it != binfo.end()) conf2 += it->second.config; }
      e.reset();
      ModuleStatics().load();
      wpre = "/simfs/w0/" + op.at("prefix").as_str(); prefixes.push_back(wpre);
      ec.out_prefix = wpre;
      e.reset(new Engine(ec));
      if (e->configure(conf2) != COLVARS_OK || cvm::get_error()) { res.counters["probe.configuration_refused"]++; break; }
      e->first_step = at_step;
      hook(e.get());
      if (e->load_state(state_prefix) != COLVARS_OK) { res.fail("trajectory", "state_not_loaded", e->last_error()); break; }
      first_of_instance = true; have_prev = false; instance_first_step = at_step; last_step = -1;
      for (auto &kv : binfo) { kv.second.have_prev = false; }
      res.counters["probe.restarts"]++; res.counters["fault.stop_and_restart"]++;
    }
  }
  e->end_run();
  add_steps(res, *e);
  e.reset();
  // ---- the files ----
  long lines_checked = 0, values_checked = 0, label_lines = 0, runave_lines = 0, corr_points = 0;
  for (auto const &pre : prefixes) {
    if (res.violation) break;
    if (errored.count(pre)) continue;
    std::string text;
    std::vector<Row> const &exp = rows[pre];
    if (!fs().get(pre + ".colvars.traj", text)) { if (!exp.empty()) res.fail("trajectory", "file_missing", pre + ".colvars.traj does not exist although " + std::to_string(exp.size()) + " lines were due"); continue; }
    std::istringstream is(text); std::string line; std::vector<std::string> labels; size_t at = 0; long ln = 0;
    while (std::getline(is, line) && !res.violation) {
      ln++;
      if (line.empty()) continue;
      std::istringstream ls(line); std::string tok; std::vector<std::string> toks; while (ls >> tok) toks.push_back(tok);
      if (toks.empty()) continue;
      std::string where = pre.substr(pre.rfind('/') + 1) + ".colvars.traj line " + std::to_string(ln);
      if (toks[0] == "#") { labels.assign(toks.begin() + 1, toks.end()); label_lines++; if (labels.empty() || labels[0] != "step") res.fail("trajectory", "label_line_without_step", where + ": " + line); continue; }
      if (labels.empty()) { res.fail("trajectory", "data_before_labels", where); break; }
      if (toks.size() != labels.size()) { res.fail("trajectory", "column_count_differs_from_labels", where + ": " + std::to_string(toks.size()) + " columns, the preceding label line announces " + std::to_string(labels.size())); break; }
      long step = atol(toks[0].c_str());
      if (step % freq != 0) { res.fail("trajectory", "step_not_a_multiple_of_frequency", where + ": step " + std::to_string(step) + ", frequency " + std::to_string(freq)); break; }
      if (at >= exp.size()) { res.fail("trajectory", "surplus_line", where + ": step " + std::to_string(step) + " after the last line that was due"); break; }
      Row const &row = exp[at++];
      if (row.step != step) { res.fail("trajectory", step < row.step ? "line_repeated_or_out_of_order" : "line_missing", where + ": step " + std::to_string(step) + ", the next line due is step " + std::to_string(row.step) + (row.repeated ? " (repeated at a run boundary)" : "")); break; }
      // labels = exactly what the configuration asks for, in order (energies of biases without outputEnergy in their configuration are optional)
      {
        std::vector<std::string> have(labels.begin() + 1, labels.end()), want = row.order, have_f;
        for (auto const &l : have) { bool optional = l.rfind("E_", 0) == 0 && std::find(want.begin(), want.end(), l) == want.end(); if (!optional) have_f.push_back(l); }
        if (have_f != want) { std::string a, b; for (auto const &l : have_f) a += l + " "; for (auto const &l : want) b += l + " "; res.fail("trajectory", "labels_differ_from_configuration", where + ": labels [" + a + "], the objects defined at step " + std::to_string(step) + " ask for [" + b + "]"); break; }
      }
      std::string cur_bias;
      for (size_t c = 1; c < toks.size() && !res.violation; c++) {
        std::string const &l = labels[c];
        if (l.rfind("E_", 0) == 0 || l.rfind("W_", 0) == 0) cur_bias = l.substr(2);
        std::string key = l.rfind("x0_", 0) == 0 ? l + "@" + cur_bias : l;
        auto it = row.col.find(key);
        if (it == row.col.end()) continue;     // optional column
        if (std::isnan(it->second)) continue;  // no independent reference for this one
        char *end = nullptr; double v = strtod(toks[c].c_str(), &end);
        if (end == toks[c].c_str()) { res.fail("trajectory", "not_a_number", where + ": column " + l + " = " + toks[c]); break; }
        bool repeated_vel = row.repeated && l.rfind("v_", 0) == 0;   // (a repeated step has no defined finite difference)
        bool first_vel = row.first_of_instance && l.rfind("v_", 0) == 0;
        if (repeated_vel || first_vel) continue;
        std::string kind = l.rfind("v_", 0) == 0 ? "velocity" : l.rfind("ft_", 0) == 0 ? "total_force" : l.rfind("fa_", 0) == 0 ? "applied_force" : l.rfind("E_", 0) == 0 ? "bias_energy" : l.rfind("x0_", 0) == 0 ? "centre" : l.rfind("W_", 0) == 0 ? "accumulated_work" : "value";
        double rt = kind == "velocity" ? 1e-9 : kind == "accumulated_work" ? 1e-9 : 1e-12;
        double atl = kind == "velocity" ? 1e-11 : kind == "accumulated_work" ? 1e-10 : 1e-13;
        if (!close_enough(v, it->second, rt, atl)) res.fail("trajectory", "column_value/" + kind + (row.repeated ? "/on_repeated_step" : ""), where + ": step " + std::to_string(step) + " column " + l + " = " + toks[c] + ", recorded " + fmt_double(it->second));
        values_checked++;
      }
      lines_checked++;
    }
    if (!res.violation && at < exp.size()) res.fail("trajectory", "line_missing", pre.substr(pre.rfind('/') + 1) + ".colvars.traj ends before step " + std::to_string(exp[at].step) + " (" + std::to_string(exp.size() - at) + " lines missing)");
    // running averages
    for (auto const &c : cvo) {
      if (res.violation || !c.runave) continue;
      std::string rt;
      auto const &ser = series_by_prefix[pre][c.name];
      // samples: evaluated steps with relative step % stride == 0, the very first evaluation of the instance excluded
      std::vector<std::pair<long, double>> samp; bool started = false;
      for (size_t i = 0; i < ser.size(); i++) {
        if (std::isnan(ser[i].second)) continue;         // asleep: not analysed
        if (!started) { started = true; continue; }      // the first analysed step only sets the calculation up
        if (ser[i].first % c.ra_stride == 0) samp.push_back(ser[i]);
      }
      std::vector<std::pair<long, std::pair<double, double>>> due;
      for (size_t i = 0; i < samp.size(); i++) {
        if ((long)i < c.ra_len - 1) continue;
        double mean = 0; for (int q = 0; q < c.ra_len; q++) mean += samp[i - (size_t)q].second; mean /= c.ra_len;
        double var = 0; for (int q = 0; q < c.ra_len; q++) { double d = samp[i - (size_t)q].second - mean; var += d * d; } var /= (c.ra_len - 1);
        due.push_back({samp[i].first, {mean, std::sqrt(var)}});
      }
      if (c.periodic) continue;   // (mean of angles across the boundary is not a textbook quantity)
      if (slept[pre].count(c.name)) continue;   // a variable that slept (C13 finding) kept or lost samples in ways the textbook does not describe
      bool have = fs().get(pre + "." + c.name + ".runave.traj", rt);
      if (!have) { if (!due.empty()) res.fail("running_average", "file_missing", pre.substr(pre.rfind('/') + 1) + "." + c.name + ".runave.traj does not exist although " + std::to_string(due.size()) + " lines were due"); continue; }
      std::istringstream rs(rt); size_t q = 0;
      while (std::getline(rs, line) && !res.violation) {
        if (line.empty() || line[0] == '#') continue;
        std::istringstream ls(line); long st; double mu, sd; if (!(ls >> st >> mu >> sd)) { res.fail("running_average", "unreadable_line", line); break; }
        if (q >= due.size()) { res.fail("running_average", "surplus_line", "step " + std::to_string(st)); break; }
        if (st != due[q].first) { res.fail("running_average", "step", c.name + ": line for step " + std::to_string(st) + ", due " + std::to_string(due[q].first)); break; }
        if (!close_enough(mu, due[q].second.first, 1e-11, 1e-12)) { res.fail("running_average", "mean", c.name + " step " + std::to_string(st) + ": written " + fmt_double(mu) + ", mean of the last " + std::to_string(c.ra_len) + " samples " + fmt_double(due[q].second.first)); break; }
        if (!close_enough(sd, due[q].second.second, 1e-9, 1e-11)) { res.fail("running_average", "standard_deviation", c.name + " step " + std::to_string(st) + ": written " + fmt_double(sd) + ", sample standard deviation of the last " + std::to_string(c.ra_len) + " samples " + fmt_double(due[q].second.second)); break; }
        q++; runave_lines++;
      }
      if (!res.violation && q < due.size()) res.fail("running_average", "line_missing", c.name + ": " + std::to_string(due.size() - q) + " lines missing, first for step " + std::to_string(due[q].first));
    }
    // time-correlation functions (coordinate type): C(t) = < xi_i(t0) xi_j(t0 + t) >, t = 0, s, 2s, ... L s
    for (auto const &c : cvo) {
      if (res.violation || !c.cf) continue;
      auto &which = c.cf_vel ? vseries_by_prefix : series_by_prefix;
      auto const &sx = which[pre][c.name];
      auto const &sy = c.cf_with.empty() ? sx : which[pre][c.cf_with];
      if (sx.size() != sy.size()) continue;
      // sampled evaluations: all but the very first; asleep ones are not analysed
      std::vector<std::pair<double, double>> smp; std::vector<long> smp_rel; bool started = false, bad = false;
      for (size_t i = 0; i < sx.size(); i++) { if (std::isnan(sx[i].second) || std::isnan(sy[i].second)) { if (started) bad = true; continue; } if (!started) { started = true; continue; } smp.push_back({sx[i].second, sy[i].second}); smp_rel.push_back(series_abs[pre][c.name][i]); }
      if (bad) continue;   // (a variable that slept in the middle: its history has a hole)
      if (slept[pre].count(c.name) || (!c.cf_with.empty() && slept[pre].count(c.cf_with))) continue;   // the library kept correlating the stale value while the variable slept
      { bool any_nan = false; for (auto const &v : sx) if (std::isnan(v.second)) any_nan = true; for (auto const &v : sy) if (std::isnan(v.second)) any_nan = true; if (any_nan) continue; }   // the library correlates the stale values of a sleeping variable (C13 finding): nothing to compare with
      int L = c.cf_len, st = c.cf_stride;
      std::vector<double> acc((size_t)L + 1, 0.0); long frames = 0;
      // what the file holds was accumulated up to the last step at which the restart file was written
      long cutoff = -1; if (restart_freq > 0) { long lastm = (last_step_of[pre] / restart_freq) * restart_freq; if (lastm > last_base_of[pre]) cutoff = lastm; else { /* the last write happened before the last state load */ long b = last_base_of[pre]; long lm2 = (b / restart_freq) * restart_freq; if (lm2 > first_step_of[pre] && b % restart_freq == 0) cutoff = -2; } }
      if (cutoff == -2) continue;   // (which restart write was the last one is ambiguous after a live reload on a restart step: not judged)
      for (size_t n = 0; n < smp.size(); n++) {
        if (smp_rel[n] > cutoff) break;
        if ((long)n - (long)L * st < 0) continue;                       // a full row of earlier values at this phase is needed
        for (int j = 0; j <= L; j++) acc[(size_t)j] += smp[n - (size_t)(j * st)].first * smp[n].second;   // xi_i at the earlier time, xi_j now
        frames++;
      }
      std::string ct; bool have = fs().get(pre + "." + c.name + ".corrfunc.dat", ct);
      std::string kind = std::string(c.cf_with.empty() ? "auto" : "cross") + (c.cf_vel ? "/velocity" : "");
      if (!have) { if (frames > 0) res.fail("correlation_function", "file_missing/" + kind, pre.substr(pre.rfind('/') + 1) + "." + c.name + ".corrfunc.dat does not exist although " + std::to_string(frames) + " frames were due"); continue; }
      std::istringstream cs(ct); int j = 0;
      while (std::getline(cs, line) && !res.violation) {
        if (line.empty() || line[0] == '#') continue;
        std::istringstream ls(line); long lag; double v; if (!(ls >> lag >> v)) { res.fail("correlation_function", "unreadable_line", line); break; }
        if (j > L) { res.fail("correlation_function", "surplus_line/" + kind, c.name + ": more than " + std::to_string(L + 1) + " points"); break; }
        if (lag != (long)j * st) { res.fail("correlation_function", "lag/" + kind, c.name + ": point " + std::to_string(j) + " is labelled " + std::to_string(lag) + ", stride " + std::to_string(st)); break; }
        double want = frames ? acc[(size_t)j] / (double)frames : 0.0; if (c.cf_norm && frames) want = acc[(size_t)j] / acc[0];
        if (frames && !close_enough(v, want, 1e-10, 1e-12)) { res.fail("correlation_function", std::string("value/") + kind + (j == 0 ? "/zero_lag" : ""), c.name + (c.cf_with.empty() ? "" : " with " + c.cf_with) + ": C(" + std::to_string(lag) + ") written " + fmt_double(v) + ", average of xi_i(t0) xi_j(t0+t) over " + std::to_string(frames) + " frames " + fmt_double(want)); break; }
        j++; corr_points++; if (c.cf_vel && frames) res.counters["probe.corrfunc_velocity_points_checked"]++;
      }
      if (!res.violation && frames > 0 && j != L + 1) res.fail("correlation_function", "point_count/" + kind, c.name + ": " + std::to_string(j) + " points written, " + std::to_string(L + 1) + " expected");
    }
  }
  sim.finish(res);
  res.counters["probe.traj_lines_checked"] += lines_checked;
  res.counters["probe.traj_values_checked"] += values_checked;
  res.counters["probe.label_lines"] += label_lines;
  res.counters["probe.runave_lines_checked"] += runave_lines;
  res.counters["probe.corrfunc_points_checked"] += corr_points;
  res.nontrivial = lines_checked > 0;
  res.class_hash = fnv_u64((uint64_t)freq, fnv_str(sc.at("template").as_str(), 19));
  {
    std::set<std::string> ts; for (auto const &op : plan.at("ops").a) if (op.at("op").as_str() == "addbias") ts.insert(op.at("tmpl").as_str());
    for (auto const &t : ts) res.features += (res.features.empty() ? "" : "+") + t;
    for (auto const &c : cvo) { if (c.runave) { res.features += "+runave"; break; } }
    for (auto const &c : cvo) { if (c.cf) { res.features += std::string(c.cf_with.empty() ? "+corrfunc" : "+crosscorr") + (c.cf_vel ? "+velocity" : ""); break; } }
  }
  uint64_t fp = 1469598103934665603ULL; fp = fnv_u64((uint64_t)lines_checked, fp); fp = fnv_u64((uint64_t)values_checked, fp);
  res.fingerprint = fnv_u64(fp, res.fingerprint);
  return res;
}

Property make() {
  Property p;
  p.id = "C19"; p.level = "exploration"; p.design_ref = "DESIGN.md §7 C19";
  p.rule = "plan = 1-3 variables (5 kinds; outputVelocity/TotalForce/AppliedForce and runAve with length 2-6 and stride 1-3 drawn per variable), 1-3 biases of 8 templates, colvarsTrajFrequency 1-5, 40-70 steps in 1-4 run segments "
           "with a bias defined or deleted, or the instance stopped and restarted under a new output prefix, between segments; non-trivial = at least one trajectory line checked; distinct = hash of (variables' flags, biases, segmentation, frequency)";
  p.rule += " Later additions: staged moving restraint in the centre reference; 35% of the correlation functions are of the velocity type.";
  p.assumptions = {"the line of a step that is evaluated twice (first step of a later run) is due twice, once per run; its velocity column is not checked",
                   "energies of biases whose configuration does not ask for outputEnergy are accepted as optional columns",
                   "centre schedule and work integral are checked for the continuous moving harmonic restraint on a non-periodic variable; running averages for non-periodic variables; velocity and P2 correlation functions are not checked"};
  p.real_components = {"colvarmodule::write_traj_files/write_traj_label/write_traj", "colvar::write_traj(_label), calc_runave", "colvarbias*::write_traj(_label)", "config_changed label refresh", "output streams of the proxy"};
  p.stub_components = {"MD engine (kinematic)", "file system (sim::FS)"};
  p.gen = gen; p.run = run;
  p.quick_runs = 4000; p.thorough_runs = 100000; p.quick_secs = 70; p.thorough_secs = 900;
  return p;
}
Registrar reg(make());

}  // namespace
