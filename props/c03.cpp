// C03 — a run resumed from a saved state is indistinguishable from an uninterrupted run.
//
// Workload: reference run 0..T in one segment; test run cut by stop points
// (graceful post_run, or kill after the last periodic restart), each followed
// by a fresh instance that loads the state from the simulated disk.
// Oracle: every step after a resume equals the reference step (values, bias
// energies, total energy, per-atom forces) within state precision; final state
// text equal; load->save reproduces the loaded state.
#include "simrun.h"
#include "scenario.h"

#include <cmath>
#include <memory>

using namespace sim;

namespace {

struct Tol { double rtol = 2e-9, atol = 1e-9; };

double max_abs(std::vector<double> const &v) { double m = 0; for (double x : v) m = std::max(m, std::fabs(x)); return m; }

bool close_vec(std::vector<double> const &a, std::vector<double> const &b, Tol t, size_t &bad, double scale) {
  if (a.size() != b.size()) { bad = (size_t)-1; return false; }
  for (size_t i = 0; i < a.size(); i++) {
    double d = std::fabs(a[i] - b[i]);
    if (!(d <= t.atol * (1 + scale) + t.rtol * std::max(std::fabs(a[i]), std::fabs(b[i])))) {
      if (std::isnan(a[i]) && std::isnan(b[i])) continue;
      bad = i; return false;
    }
  }
  return true;
}

J gen(uint64_t seed, bool thorough) {
  Rng r(seed, 3);
  ScenOpts o;
  o.T = thorough ? r.range(20, 160) : r.range(12, 60);
  o.max_biases = 2; o.max_cvs = 2;
  o.p_extended = 0.25; o.p_subtract = 0.4;
  o.restart_freq = 0;
  Scenario sc = gen_scenario(r, o);
  sc.ec.binary_state = r.chance(0.4);
  // ALB ends its coupling ramp on a comparison of two nearly equal doubles: a 14-digit text state can flip
  // that decision (not a defect); with a binary state the comparison with the reference is exact
  if (sc.tmpl.find("alb") != std::string::npos) sc.ec.binary_state = true;
  int rf = (int)r.range(2, 9);
  sc.ec.restart_freq = rf;
  if (r.chance(0.5)) sc.ec.restart_prefix = "/simfs/w0/rst";
  // the configuration's colvarsRestartFrequency: half of the runs use the engine default
  if (r.chance(0.5)) {
    size_t p = sc.config.find("colvarsRestartFrequency 0");
    if (p != std::string::npos) sc.config.replace(p, 25, "colvarsRestartFrequency " + std::to_string(rf));
  } else {
    size_t p = sc.config.find("colvarsRestartFrequency 0\n");
    if (p != std::string::npos) sc.config.erase(p, 26);
  }
  J plan = J::obj();
  plan["v"] = 1; plan["property"] = "C03"; plan["seed"] = (long long)seed;
  plan["scenario"] = sc.to_json();
  J ops = J::arr();
  long T = sc.T;
  int nstops = r.chance(0.25) ? 2 : 1;
  long cur = 0;
  for (int s = 0; s < nstops && cur < T; s++) {
    long K;
    double u = r.unit();
    if (u < 0.1) K = cur;                 // stop immediately (first step)
    else if (u < 0.2) K = T;              // stop at the very end
    else if (u < 0.45) K = std::min(T, cur + (long)rf * r.range(1, 4));   // on the restart schedule
    else K = r.range(cur, T);
    if (K < cur) K = cur;
    J op = J::obj();
    op["w"] = 0; op["op"] = "run"; op["n"] = (long long)(K - cur);
    bool kill = r.chance(0.3);
    op["end"] = kill ? "kill" : "graceful";
    ops.push(op);
    J rs = J::obj(); rs["w"] = 0; rs["op"] = "resume";
    if (r.chance(0.5)) rs["loadsave"] = true;
    ops.push(rs);
    cur = K;   // for kill the executor recomputes the actual resume step
  }
  J last = J::obj(); last["w"] = 0; last["op"] = "run"; last["n"] = (long long)-1; last["end"] = "graceful";   // -1: to T
  ops.push(last);
  plan["ops"] = ops;
  return plan;
}

RunResult run(J const &plan) {
  RunResult res;
  EngineCfg ec; std::string config; long T;
  scenario_from_json(plan.at("scenario"), ec, config, T);
  SimRun sim(1);
  uint64_t fp = 1469598103934665603ULL;
  Tol tol;
  // a fictitious coordinate integrates the 1e-14 rounding of a text state forward (observed: 1.2e-8 relative after 32 steps with a
  // 43 fs time constant): after a text state such scenarios are compared at 1e-6 (a genuine loss of state is O(1))
  // (also with a binary state: the variables' own state block — x, extended_x, extended_v — is text with 14 digits inside it)
  bool const amplified = config.find("extendedLagrangian on") != std::string::npos;
  if (amplified) { tol.rtol = 1e-6; tol.atol = 1e-7; }

  // ---- reference ----
  std::vector<StepRec> ref;
  std::string ref_state;
  std::vector<bool> bias_loose;
  {
    EngineCfg rc = ec; rc.out_prefix = "/simfs/w0/ref"; if (!rc.restart_prefix.empty()) rc.restart_prefix = "/simfs/w0/refrst";
    std::unique_ptr<Engine> e(new Engine(rc));
    int err = e->configure(config);
    if (err != COLVARS_OK || cvm::get_error()) {
      res.counters["probe.invalid_config"]++;
      res.detail = e->last_error();
      sim.finish(res);
      return res;
    }
    e->run((int)T, true);
    if (cvm::get_error()) { res.counters["probe.ref_run_error"]++; sim.finish(res); return res; }
    ref = e->rec;
    ref_state = e->save_state_string();
    for (colvarbias *b : e->colvars->biases) {
      // the energy of ABF in more than one dimension is read from a PMF obtained with an iterative
      // solver (integrateTol 1e-6, warm-started from the previous solution): defined to that tolerance only
      bool iterative = b->bias_type == "abf" && b->num_variables() > 1;
      bias_loose.push_back(iterative);
    }
    add_steps(res, *e);
  }
  fp = hash_recs(ref, fp);
  if (ref.size() != (size_t)T + 1) { res.fail("harness", "ref_length", "reference produced " + std::to_string(ref.size()) + " records"); sim.finish(res); return res; }

  // ---- test ----
  std::unique_ptr<Engine> e(new Engine(ec));
  e->configure(config);
  long cur = 0;
  long resume_step = -1; long first_resume_step = 0; std::vector<long> resume_steps;     // records with step > resume_step (after a resume) are compared with tolerance
  bool resumed = false;
  std::string kinds;
  std::string last_end = "graceful";
  int n_resumes = 0;
  bool ref_degenerate = false, stop_here = false;
  auto close_bias = [&](std::vector<double> const &a, std::vector<double> const &b, Tol t, size_t &bad) {
    if (a.size() != b.size()) { bad = (size_t)-1; return false; }
    double scale = max_abs(b);
    for (size_t i = 0; i < a.size(); i++) {
      double d = std::fabs(a[i] - b[i]);
      double lim = t.atol * (1 + scale) + t.rtol * std::max(std::fabs(a[i]), std::fabs(b[i]));
      if (resumed && i < bias_loose.size() && bias_loose[i]) lim += 1e-4 * (1e-2 + std::fabs(b[i]));
      if (!(d <= lim)) { bad = i; return false; }
    }
    return true;
  };
  auto loose_energy_slack = [&](StepRec const &rr) {
    double s = 0;
    if (resumed) for (size_t i = 0; i < rr.bias_e.size() && i < bias_loose.size(); i++) if (bias_loose[i]) s += 1e-4 * (1e-2 + std::fabs(rr.bias_e[i]));
    return s;
  };
  auto compare_new_records = [&](size_t from) {
    for (size_t i = from; i < e->rec.size() && !res.violation; i++) {
      StepRec const &t = e->rec[i];
      if (t.step < 0 || t.step > T) { res.fail("resume_equiv", "step_out_of_range", "step " + std::to_string(t.step)); break; }
      StepRec const &rr = ref[(size_t)t.step];
      if (getenv("CVSIM_DEBUG")) {
        fprintf(stderr, "step %ld%s cv", t.step, t.continuing ? "c" : "");
        for (size_t q = 0; q < t.cv.size(); q++) fprintf(stderr, " %.15g|%.15g", t.cv[q], rr.cv[q]);
        fprintf(stderr, "  be");
        for (size_t q = 0; q < t.bias_e.size(); q++) fprintf(stderr, " %.15g|%.15g", t.bias_e[q], rr.bias_e[q]);
        fprintf(stderr, "  fa");
        for (size_t q = 0; q < t.cv_fa.size(); q++) fprintf(stderr, " %.15g|%.15g", t.cv_fa[q], rr.cv_fa[q]);
        fprintf(stderr, "  ft");
        for (size_t q = 0; q < t.cv_ft.size(); q++) fprintf(stderr, " %.15g|%.15g", t.cv_ft[q], rr.cv_ft[q]);
        fprintf(stderr, "  E %.15g|%.15g\n", t.energy, rr.energy);
      }
      if (resumed && t.step <= resume_step) continue;   // the repeated step itself
      {
        // a reference that is itself not finite describes a degenerate scenario: nothing to compare with
        bool finite = std::isfinite(rr.energy);
        for (double v : rr.bias_e) finite = finite && std::isfinite(v);
        for (double v : rr.fapp) finite = finite && std::isfinite(v);
        for (double v : rr.cv) finite = finite && std::isfinite(v);
        if (!finite) { res.counters["probe.ref_not_finite"]++; ref_degenerate = true; continue; }
      }
      size_t bad = 0;
      Tol tt = tol;
      if (!resumed) { tt.rtol = 0; tt.atol = 0; }
      // a fictitious coordinate next to non-smooth biases (a ratchet, walls) amplifies the rounding of the state text without bound:
      // a lost piece of state shows within the first steps after the resume (compared at 1e-6); later steps only at 1e-2
      else if (amplified && t.step > first_resume_step + 5) {   // (counted from the FIRST resume: a later one starts from a run that has legitimately drifted already)
        // (with a ratchet or walls the amplification has no bound at all — 12% after 85 steps was observed: not compared)
        if (config.find("abmd {") != std::string::npos || config.find("harmonicWalls {") != std::string::npos) continue;
        // (a history-dependent bias on a fictitious coordinate feeds the drift back: new hills, samples and kernels land elsewhere - 6% in
        //  the energy 39 steps after a resume was observed with metadynamics: not compared either)
        if (config.find("metadynamics {") != std::string::npos || config.find("abf {") != std::string::npos || config.find("opes_metad {") != std::string::npos || config.find("alb {") != std::string::npos) continue;
        tt.rtol = 1e-2; tt.atol = 1e-3;
      }
      std::string where = resumed ? "after_resume" : "before_stop";
      if (!close_vec(t.cv, rr.cv, tt, bad, max_abs(rr.cv))) res.fail("resume_equiv", where + "/value", "step " + std::to_string(t.step) + " cv[" + std::to_string(bad) + "] test " + (bad < t.cv.size() ? fmt_double(t.cv[bad]) : "?") + " ref " + (bad < rr.cv.size() ? fmt_double(rr.cv[bad]) : "?"));
      else if (!close_bias(t.bias_e, rr.bias_e, tt, bad)) res.fail("resume_equiv", where + "/bias_energy", "step " + std::to_string(t.step) + " bias " + std::to_string(bad) + " test " + (bad < t.bias_e.size() ? fmt_double(t.bias_e[bad]) : "?") + " ref " + (bad < rr.bias_e.size() ? fmt_double(rr.bias_e[bad]) : "?"));
      else if (std::fabs(t.energy - rr.energy) > tt.atol * (1 + std::fabs(rr.energy)) + tt.rtol * std::fabs(rr.energy) + loose_energy_slack(rr)) res.fail("resume_equiv", where + "/total_energy", "step " + std::to_string(t.step) + " test " + fmt_double(t.energy) + " ref " + fmt_double(rr.energy));
      else if (!close_vec(t.fapp, rr.fapp, tt, bad, max_abs(rr.fapp))) res.fail("resume_equiv", where + "/atom_force", "step " + std::to_string(t.step) + " comp " + std::to_string(bad) + " test " + (bad < t.fapp.size() ? fmt_double(t.fapp[bad]) : "?") + " ref " + (bad < rr.fapp.size() ? fmt_double(rr.fapp[bad]) : "?"));
      else if (t.err != rr.err) res.fail("resume_equiv", where + "/error_bits", "step " + std::to_string(t.step) + " err " + std::to_string(t.err) + " vs " + std::to_string(rr.err));
    }
  };
  for (auto const &op : plan.at("ops").a) {
    if (res.violation) break;
    std::string k = op.at("op").as_str();
    if (k == "run") {
      long n = (long)op.at("n").as_int(-1);
      if (n < 0 || cur + n > T) n = T - cur;
      std::string end = op.at("end").as_str("graceful");
      size_t from = e->rec.size();
      e->run((int)n, end == "graceful");
      cur += n;
      last_end = end;
      kinds += end == "kill" ? "k" : "g";
      compare_new_records(from);
      fp = hash_recs(e->rec, fp);
    } else if (k == "resume") {
      // which state is on disk?
      std::string prefix;
      if (last_end == "graceful") prefix = ec.out_prefix.empty() ? "/simfs/w0/out" : ec.out_prefix;
      else prefix = !ec.restart_prefix.empty() ? ec.restart_prefix : (ec.out_prefix.empty() ? "/simfs/w0/out" : ec.out_prefix);
      add_steps(res, *e);
      e.reset();
      e.reset(new Engine(ec));
      e->configure(config);
      n_resumes++;
      kinds += "R";
      std::string state_path = prefix + ".colvars.state";
      if (fs().exists(state_path)) {
        if (getenv("CVSIM_DEBUG")) { std::string st; fs().get(state_path, st); fprintf(stderr, "---- state %s ----\n%s\n----\n", state_path.c_str(), st.c_str()); }
        int err = e->load_state(prefix);
        if (err != COLVARS_OK || cvm::get_error()) {
          // a scenario whose reference has already blown up (an unstable fictitious coordinate: energies inf, work nan) writes "nan" into
          // its state, which cannot be read back: degenerate, nothing to compare with
          bool blown = false;
          for (size_t q = 0; q < ref.size() && !blown; q++) { blown = !std::isfinite(ref[q].energy); for (double v : ref[q].cv) blown = blown || !std::isfinite(v); }
          if (blown) { res.counters["probe.ref_not_finite"]++; ref_degenerate = true; stop_here = true; break; }
          res.fail("resume_equiv", "load_error", "loading " + state_path + ": " + e->last_error());
          break;
        }
        cur = (long)cvm::step_absolute();
        res.counters["probe.resume_from_state"]++; res.counters["fault.stop_and_resume"]++;
        if (last_end == "kill") { res.counters["probe.resume_after_kill"]++; res.counters["fault.kill_without_final_state"]++; }
        if (op.at("loadsave").as_bool()) {
          std::string loaded;
          if (!ec.binary_state) {
            fs().get(state_path, loaded);
            std::string again = e->save_state_string();
            // (with rebinGrids the grids are recomputed from the hills on load: same numbers, different summation order)
            bool rebinned = config.find("rebinGrids on") != std::string::npos;
            StateDiff d = compare_state_text(loaded, again, rebinned ? 1e-8 : 1e-10, rebinned ? 1e-12 : 1e-300);
            res.counters["probe.loadsave_checked"]++;
            if (!d.same) res.fail("load_save", "state_differs/" + d.context, "token " + std::to_string(d.index) + " loaded '" + d.a + "' saved '" + d.b + "'");
          }
        }
      } else {
        cur = 0;   // nothing on disk: the job starts over
        res.counters["probe.resume_without_state"]++;
      }
      if (!resumed) first_resume_step = cur;
      resume_steps.push_back(cur);
      resumed = true;
      resume_step = cur;
    }
  }
  if (!res.violation && cur < T && !stop_here) {
    size_t from = e->rec.size();
    e->run((int)(T - cur), true);
    cur = T;
    compare_new_records(from);
  }
  if (!res.violation && resumed && !ref_degenerate) {
    std::string fin = e->save_state_string();
    bool const nonsmooth = amplified && (config.find("abmd {") != std::string::npos || config.find("harmonicWalls {") != std::string::npos || config.find("metadynamics {") != std::string::npos ||
                                         config.find("abf {") != std::string::npos || config.find("opes_metad {") != std::string::npos || config.find("alb {") != std::string::npos);
    StateDiff d = compare_state_text(ref_state, fin, amplified ? 1e-2 : 2e-9, amplified ? 1e-3 : 1e-9);
    if (nonsmooth) d.same = true;
    if (!d.same) res.fail("final_state", "differs/" + d.context, "token " + std::to_string(d.index) + " ref '" + d.a + "' test '" + d.b + "'");
  }
  add_steps(res, *e);
  fp = hash_recs(e->rec, fp);
  e.reset();
  res.nontrivial = n_resumes > 0;
  res.class_hash = fnv_str(kinds, fnv_str(plan.at("scenario").at("template").as_str(), fnv_u64(ec.binary_state, fnv_u64(ec.forces_late, 7))));
  res.counters[ec.binary_state ? "probe.binary_state" : "probe.text_state"]++;
  res.counters[ec.forces_late ? "probe.forces_late" : "probe.forces_same_step"]++;
  res.fingerprint = fp;
  if (res.violation) {
    res.features = config_features(config) + (ec.binary_state ? "+binary" : "");
    // did a run resume at a step that is not a multiple of some timeStepFactor?  (the trigger of the recorded finding C03-MTS-RESTART)
    bool off = false;
    for (size_t p = config.find("timeStepFactor "); p != std::string::npos; p = config.find("timeStepFactor ", p + 1)) {
      long n = atol(config.c_str() + p + 15);
      for (long rs : resume_steps) if (n > 1 && rs % n != 0) off = true;
    }
    if (off) res.features += "+mts_resume_off_multiple";
  }
  sim.finish(res);
  return res;
}

Property make() {
  Property p;
  p.id = "C03"; p.level = "exploration"; p.design_ref = "DESIGN.md §7 C03";
  p.rule = "plan = scenario (1-2 variables x 1-2 biases from the catalogue, both force conventions, text/binary state, restart frequency) + "
           "stop points (graceful post_run or kill after the last periodic restart; first/last step, on/off the restart schedule) each followed by a "
           "fresh instance loading the state from the simulated disk; non-trivial = at least one resume executed; distinct = hash of (scenario "
           "template, stop/resume kind sequence, state format, force convention)";
  p.rule += " Later additions: 40% of the variables whose total force is read have subtractAppliedForce; scenarios with a fictitious coordinate are compared at 1e-6 for five steps after the first resume only.";
  p.rule += " Fifth round: scenarios with a history-dependent bias on a fictitious coordinate are compared for five steps after the first resume only.";
  p.assumptions = {"engine-side checkpoint is perfect (kinematic positions are a pure function of the step)",
                   "comparison tolerance rtol 2e-9 after a text state (14 significant digits); bitwise before the first stop",
                   "quantities at the repeated step itself are not compared"};
  p.real_components = {"colvarmodule", "colvar + components", "all biases of the catalogue", "colvarproxy_io (output_stream, backup_file, rename)", "libstdc++ filebuf"};
  p.stub_components = {"MD engine (kinematic)", "file system (sim::FS)", "OpenMP runtime (simgomp, team of one)", "random source (counter based)"};
  p.gen = gen; p.run = run; p.shrink_more = shrink_scenario_config;
  p.quick_runs = 1500; p.thorough_runs = 60000; p.quick_secs = 70; p.thorough_secs = 1200;
  return p;
}
Registrar reg(make());

}  // namespace
