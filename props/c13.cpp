// C13 — defining then deleting objects is the identity; dependencies stay consistent.
//
// Workload: a seeded sequence of run-time operations on one module instance — add variable, add
// bias on existing variables, delete bias, delete variable (cascades to its biases), reset, run k
// steps — issued through the same entry points a script uses.
// Reference: a twin instance executes the same plan with every operation that concerns a
// later-deleted object removed, on the same kinematic trajectory (same-step forces).
// Oracle: on every step the surviving objects' values and energies are bitwise those of the twin;
// when the live sets coincide also the per-atom forces, the total energy and the number of active
// atoms; after EVERY operation the dependency graph is consistent (prerequisites, alternatives,
// exclusions, children's features, parent/child links, reference counts); ASan reports any use of a
// deleted object.
#include "simrun.h"
#include "scenario.h"
#include "deps_check.h"

#include <cmath>
#include <memory>
#include <set>

using namespace sim;

namespace {

// equality of recorded numbers: same value (+0 and -0 are the same number), or both not-a-number
inline bool same_num(double a, double b) { return a == b || (std::isnan(a) && std::isnan(b)); }
inline bool same_vec(std::vector<double> const &a, std::vector<double> const &b) { if (a.size() != b.size()) return false; for (size_t i = 0; i < a.size(); i++) if (!same_num(a[i], b[i])) return false; return true; }

const char *k_bias_tmpl[] = {"harm_fixed", "harm_cmove", "harm_kmove", "walls_fixed", "linear_fixed", "meta_grid", "meta_nogrid", "histogram", "abmd", "walls_kmove", "meta_keep"};

J gen(uint64_t seed, bool thorough) {
  Rng r(seed, 13);
  EngineCfg ec;
  ec.natoms = (int)r.range(10, 16);
  ec.data_seed = r.next() >> 12; ec.noise_seed = r.next() >> 12;
  ec.dt = 1.0; ec.temperature = 300.0; ec.forces_late = false;
  ec.traj_amp = r.uniform(0.5, 1.3);
  TrajModel m; m.build(ec.data_seed, ec.natoms, ec.traj_amp, ec.force_amp, false);
  long T = 80;   // horizon for ranges
  J plan = J::obj();
  plan["v"] = 1; plan["property"] = "C13"; plan["seed"] = (long long)seed;
  J sc = J::obj();
  J e = J::obj(); ec.to_json(e); sc["engine"] = e;
  sc["config"] = global_config(1, 0, false);
  sc["T"] = (long long)T;
  J ops = J::arr();
  struct LiveCv { std::string name; CvSpec spec; std::pair<double, double> range; bool ext = false; };
  struct LiveBias { std::string name; std::vector<std::string> cvs; bool mts = false; };
  std::vector<LiveCv> cvs; std::vector<LiveBias> biases;
  int ncv_made = 0, nb_made = 0;
  int nops = (int)r.range(4, thorough ? 40 : 18);
  static const char *kinds[] = {"distance", "distanceZ", "dihedral", "angle", "distanceXY"};
  std::string sig;
  long steps = 0;
  for (int i = 0; i < nops; i++) {
    double u = r.unit();
    J op = J::obj(); op["w"] = 0;
    if ((u < 0.22 && cvs.size() < 4) || cvs.empty()) {
      LiveCv c; c.name = "v" + std::to_string(ncv_made++);
      c.spec = make_cv(r, ec.natoms, kinds[r.below(5)], c.name);
      place_grid(c.spec, m, T, r, (int)r.range(4, 10), 1.4);
      double lo, hi; cv_range(c.spec, m, T, lo, hi); c.range = {lo, hi};
      if (r.chance(0.3)) c.spec.extra += "  outputAppliedForce on\n";
      // some variables carry a fictitious coordinate (no noise): only biases that apply no force are defined on them,
      // so that a deleted bias cannot have changed the coordinate's history
      if (r.chance(0.25) && !c.spec.periodic()) {
        c.ext = true;
        c.spec.extra += "  extendedLagrangian on\n  extendedFluctuation " + num(c.spec.width * r.uniform(0.5, 2.0)) + "\n  extendedTimeConstant " + num(r.uniform(20, 200)) + "\n  extendedLangevinDamping 0\n";
      }
      op["op"] = "addcv"; op["name"] = c.name; op["config"] = c.spec.config();
      cvs.push_back(c); sig += "C";
    } else if (u < 0.5 && biases.size() < 4) {
      std::string t = k_bias_tmpl[r.below(sizeof k_bias_tmpl / sizeof *k_bias_tmpl)];
      int k = t == "abmd" ? 1 : (int)r.range(1, std::min((size_t)2, cvs.size()));
      std::vector<size_t> idx; for (size_t q = 0; q < cvs.size(); q++) idx.push_back(q);
      for (size_t q = idx.size() - 1; q > 0; q--) std::swap(idx[q], idx[r.below(q + 1)]);
      idx.resize((size_t)k);
      bool any_ext = false; for (size_t q : idx) any_ext = any_ext || cvs[q].ext;
      if (any_ext) t = r.chance(0.6) ? "abf_noapply" : "histogram";
      else if (r.chance(0.08)) t = "abf_noapply";
      std::vector<CvSpec> sub; std::vector<std::pair<double, double>> rg; LiveBias b; b.name = "b" + std::to_string(nb_made++);
      for (size_t q : idx) { sub.push_back(cvs[q].spec); rg.push_back(cvs[q].range); b.cvs.push_back(cvs[q].name); }
      BiasSpec bs = make_bias(t == "abf_noapply" ? "abf" : t, r, sub, rg, 30, b.name);
      if (t == "abf_noapply") { size_t q = bs.config.rfind("}"); bs.config.insert(q, "  applyBias off\n"); size_t h = bs.config.find("  historyFreq"); if (h != std::string::npos) bs.config.erase(h, bs.config.find('\n', h) - h + 1); h = bs.config.find("  outputFreq"); if (h != std::string::npos) bs.config.erase(h, bs.config.find('\n', h) - h + 1); }
      size_t p = bs.config.find("  timeStepFactor");
      if (p != std::string::npos) bs.config.erase(p, bs.config.find('\n', p) - p + 1);
      // some biases sleep between multiples of their factor (deleting or switching one while it sleeps is a different path)
      if (!any_ext && t != "abf_noapply" && r.chance(0.15)) { size_t q = bs.config.rfind("}"); bs.config.insert(q, "  timeStepFactor " + std::to_string(r.range(2, 3)) + "\n"); b.mts = true; }
      while ((p = bs.config.find("  writeTI")) != std::string::npos) bs.config.erase(p, bs.config.find('\n', p) - p + 1);
      op["op"] = "addbias"; op["name"] = b.name; op["config"] = bs.config; op["tmpl"] = t;
      J cv = J::arr(); for (auto &n : b.cvs) cv.push(n); op["cvs"] = cv;
      biases.push_back(b); sig += "B";
    } else if (u < 0.535 && !biases.empty()) {
      // switch a bias off or on through the script interface (biases without a factor only: an MTS bias cannot be switched, C08 finding)
      std::vector<size_t> plain; for (size_t q = 0; q < biases.size(); q++) if (!biases[q].mts) plain.push_back(q);
      if (plain.empty()) { op["op"] = "run"; op["name"] = ""; op["n"] = 1; steps += 1; sig += "r"; }
      else { size_t q = plain[r.below(plain.size())]; op["op"] = r.chance(0.6) ? "off" : "on"; op["name"] = biases[q].name; sig += op.at("op").as_str() == "off" ? "x" : "o"; }
    } else if (u < 0.62 && !biases.empty()) {
      size_t q = r.below(biases.size());
      op["op"] = "delbias"; op["name"] = biases[q].name;
      biases.erase(biases.begin() + (long)q); sig += "d";
    } else if (u < 0.72 && !cvs.empty()) {
      size_t q = r.below(cvs.size());
      std::string nm = cvs[q].name;
      op["op"] = "delcv"; op["name"] = nm;
      cvs.erase(cvs.begin() + (long)q);
      for (size_t b = biases.size(); b-- > 0;) if (std::find(biases[b].cvs.begin(), biases[b].cvs.end(), nm) != biases[b].cvs.end()) biases.erase(biases.begin() + (long)b);
      sig += "D";
    } else if (u < 0.75) {
      op["op"] = "reset"; cvs.clear(); biases.clear(); sig += "R";
    } else {
      long n = r.range(1, 6);
      op["op"] = "run"; op["n"] = (long long)n; steps += n; sig += "r";
    }
    ops.push(op);
  }
  if (steps == 0) { J op = J::obj(); op["w"] = 0; op["op"] = "run"; op["n"] = 3; ops.push(op); sig += "r"; }
  sc["template"] = sig.size() > 24 ? sig.substr(0, 24) : sig;
  plan["scenario"] = sc;
  plan["ops"] = ops;
  return plan;
}

// which ops does the twin skip?  (everything that concerns an object that is deleted later)
std::vector<bool> twin_skips(J const &ops, std::vector<bool> const &rejected) {
  size_t n = ops.size();
  std::vector<bool> skip(n, false);
  struct Inst { size_t add_op; std::string name; bool bias; std::vector<std::string> cvs; bool doomed = false; };
  std::vector<Inst> inst;
  std::vector<size_t> live;
  auto doom = [&](size_t k) { inst[k].doomed = true; };
  for (size_t i = 0; i < n; i++) {
    std::string k = ops.a[i].at("op").as_str(), nm = ops.a[i].at("name").as_str();
    if (i < rejected.size() && rejected[i]) { skip[i] = true; continue; }   // the library refused this definition: it never existed
    if (k == "addcv" || k == "addbias") {
      bool exists = false;
      for (size_t q : live) if (inst[q].name == nm) exists = true;
      if (exists) { skip[i] = true; continue; }    // duplicate name: rejected in both
      Inst in; in.add_op = i; in.name = nm; in.bias = k == "addbias";
      for (auto const &c : ops.a[i].at("cvs").a) in.cvs.push_back(c.as_str());
      if (in.bias) { bool ok = true; for (auto &c : in.cvs) { bool f = false; for (size_t q : live) if (!inst[q].bias && inst[q].name == c) f = true; ok = ok && f; } if (!ok) { skip[i] = true; continue; } }
      inst.push_back(in); live.push_back(inst.size() - 1);
    } else if (k == "delbias" || k == "delcv") {
      skip[i] = true;
      for (size_t p = live.size(); p-- > 0;) {
        Inst &in = inst[live[p]];
        bool hit = (k == "delbias" && in.bias && in.name == nm) || (k == "delcv" && !in.bias && in.name == nm) ||
                   (k == "delcv" && in.bias && std::find(in.cvs.begin(), in.cvs.end(), nm) != in.cvs.end());
        if (hit) { doom(live[p]); live.erase(live.begin() + (long)p); }
      }
    } else if (k == "reset") {
      skip[i] = true;
      for (size_t q : live) doom(q);
      live.clear();
    }
  }
  for (auto const &in : inst) if (in.doomed) skip[in.add_op] = true;
  // switching a bias that is deleted later is part of that bias's story
  {
    std::vector<std::pair<std::string, bool>> alive;   // (name, doomed) in definition order
    for (size_t i = 0; i < n; i++) {
      std::string k = ops.a[i].at("op").as_str();
      if (k != "off" && k != "on") continue;
      std::string nm = ops.a[i].at("name").as_str();
      // the instance this op refers to: the last one defined before i with that name
      bool doomed = false, found = false;
      for (auto const &in : inst) if (in.bias && in.name == nm && in.add_op < i) { doomed = in.doomed; found = true; }
      if (!found || doomed) skip[i] = true;
    }
  }
  return skip;
}

struct Snap {
  long step; std::map<std::string, std::vector<double>> cv; std::map<std::string, bool> cv_active; std::map<std::string, std::string> feat; std::map<std::string, double> be; std::vector<double> fapp; double energy; size_t active_atoms; int err; std::string errmsg;
};

struct Outcome { std::vector<Snap> snaps; std::string deps_err, deps_sig, deps_when; std::vector<bool> rejected; std::string fail_msg; long deps_objects = 0; long ops_done = 0; };

Outcome execute(J const &plan, std::vector<bool> const *skip, RunResult &res, bool check_graph) {
  Outcome out;
  EngineCfg ec; std::string config; long T;
  scenario_from_json(plan.at("scenario"), ec, config, T);
  std::unique_ptr<Engine> e(new Engine(ec));
  e->configure(config);
  Engine *ep = e.get();
  e->after_step = [&out, ep](long step) {
    Snap s; s.step = step;
    StepRec const &r = ep->rec.back();
    size_t k = 0;
    for (colvar *cv : *ep->colvars->variables()) { s.cv[cv->name] = std::vector<double>(r.cv.begin() + r.cv_off[k], r.cv.begin() + r.cv_off[k + 1]); s.cv_active[cv->name] = cv->is_enabled(); k++;
      std::string fl; auto const &st = colvars_verif_access::dep_states(cv); for (size_t f = 0; f < st.size() && f < cv->features().size(); f++) if (st[f].enabled) fl += cv->features()[f]->description + ";"; s.feat["variable " + cv->name] = fl; }
    k = 0;
    for (colvarbias *b : ep->colvars->biases) { s.be[b->name] = r.bias_e[k++];
      std::string fl; auto const &st = colvars_verif_access::dep_states(b); for (size_t f = 0; f < st.size() && f < b->features().size(); f++) if (st[f].enabled) fl += b->features()[f]->description + ";"; s.feat["bias " + b->name] = fl; }
    s.fapp = r.fapp; s.energy = r.energy; s.active_atoms = ep->get_num_active_atoms(); s.err = r.err; if (r.err) s.errmsg = ep->last_error();
    out.snaps.push_back(s);
  };
  J const &ops = plan.at("ops");
  out.rejected.assign(ops.size(), false);
  for (size_t i = 0; i < ops.size(); i++) {
    if (skip && (*skip)[i]) continue;
    J const &op = ops.a[i];
    std::string k = op.at("op").as_str(), nm = op.at("name").as_str();
    cvm::clear_error();
    if (k == "addcv" || k == "addbias") {
      e->run_script({"cv", "config", op.at("config").as_str()});
      bool there = k == "addcv" ? cvm::colvar_by_name(nm) != NULL : cvm::bias_by_name(nm) != NULL;
      if (!there) { out.rejected[i] = true; if (out.fail_msg.empty()) out.fail_msg = nm + ": " + e->last_error(); }
    } else if (k == "off" || k == "on") {
      if (cvm::bias_by_name(nm)) { e->run_script({"cv", "bias", nm, "set", "active", k == "on" ? "1" : "0"}); if (check_graph) res.counters["fault.bias_switched_off_or_on"]++; }
    } else if (k == "delbias") {
      if (cvm::bias_by_name(nm)) { e->run_script({"cv", "bias", nm, "delete"}); if (check_graph) res.counters["fault.delete_bias"]++; }
    } else if (k == "delcv") {
      if (cvm::colvar_by_name(nm)) { e->run_script({"cv", "colvar", nm, "delete"}); if (check_graph) res.counters["fault.delete_variable"]++; }
    } else if (k == "reset") {
      if (check_graph) res.counters["fault.reset"]++;
      e->run_script({"cv", "reset"});
      // a reset forgets the module-level settings too: the driver re-applies them, as an engine script would
      e->run_script({"cv", "config", config});
    } else if (k == "run") {
      cvm::clear_error();
      e->run((int)op.at("n").as_int(1), false);
    }
    out.ops_done++;
    if (check_graph && out.deps_err.empty()) {
      std::string sig;
      std::string err = check_deps(e->colvars, sig, &out.deps_objects);
      if (!err.empty()) { out.deps_err = err; out.deps_sig = sig; out.deps_when = k; }
    }
  }
  add_steps(res, *e);
  return out;
}

RunResult run(J const &plan) {
  RunResult res;
  uint64_t fp = 1469598103934665603ULL;
  Outcome test, twin;
  { SimRun sim(1); test = execute(plan, nullptr, res, true); sim.finish(res); }
  // a definition the library refuses (and cleans up itself) is one more define-then-delete: the twin never issues it
  long nrej = 0; for (bool b : test.rejected) if (b) nrej++;
  res.counters["probe.definitions_rejected_and_cleaned_up"] += nrej; res.counters["fault.definition_refused"] += nrej;
  std::vector<bool> skip = twin_skips(plan.at("ops"), test.rejected);
  { SimRun sim(1); twin = execute(plan, &skip, res, false); sim.finish(res); }
  long ndel = 0; for (bool b : skip) if (b) ndel++;
  res.counters["probe.ops_removed_in_twin"] += ndel;
  res.counters["probe.dependency_objects_checked"] += test.deps_objects;
  if (!test.deps_err.empty()) res.fail("dependency_graph", test.deps_sig + "/after_" + test.deps_when, test.deps_err);
  if (!res.violation && test.snaps.size() != twin.snaps.size()) res.fail("twin", "step_count", std::to_string(test.snaps.size()) + " vs " + std::to_string(twin.snaps.size()));
  long compared = 0, full = 0;
  std::set<std::string> ext_names; for (auto const &op : plan.at("ops").a) if (op.at("op").as_str() == "addcv" && op.at("config").as_str().find("extendedLagrangian on") != std::string::npos) ext_names.insert(op.at("name").as_str());
  std::set<std::string> tainted;   // variables that slept at some point: their later history (fictitious coordinate) legitimately differs
  // hideJacobian is a switch of the VARIABLE: while an ABF bias that sets it is alive, every other ABF bias on that variable accumulates
  // total forces without the Jacobian term.  A survivor that shared a variable with such a bias has a legitimately different history.
  std::set<std::string> hj_coupled;
  {
    J const &ops = plan.at("ops");
    for (size_t i = 0; i < ops.size(); i++) {
      if (ops.a[i].at("op").as_str() != "addbias" || !skip[i] || (i < test.rejected.size() && test.rejected[i])) continue;
      std::string cfg = ops.a[i].at("config").as_str();
      if (cfg.find("hideJacobian on") == std::string::npos) continue;
      for (size_t j = 0; j < ops.size(); j++) {
        if (j == i || ops.a[j].at("op").as_str() != "addbias" || skip[j]) continue;
        if (ops.a[j].at("config").as_str().find("abf {") == std::string::npos) continue;
        bool shares = false;
        for (auto const &a : ops.a[i].at("cvs").a) for (auto const &b : ops.a[j].at("cvs").a) if (a.as_str() == b.as_str()) shares = true;
        if (!shares) continue;
        // ... and only if both were alive during at least one step: find the op that ends bias i's life, then a run between the later definition and it
        size_t end = ops.size(); std::string ni = ops.a[i].at("name").as_str();
        for (size_t q = i + 1; q < ops.size(); q++) {
          std::string kq = ops.a[q].at("op").as_str(), nq = ops.a[q].at("name").as_str();
          bool cv_hit = false; if (kq == "delcv") for (auto const &a : ops.a[i].at("cvs").a) if (a.as_str() == nq) cv_hit = true;
          if ((kq == "delbias" && nq == ni) || cv_hit || kq == "reset") { end = q; break; }
        }
        bool stepped = false;
        for (size_t q = std::max(i, j) + 1; q < end; q++) if (ops.a[q].at("op").as_str() == "run" && ops.a[q].at("n").as_int(0) > 0) stepped = true;
        if (stepped) hj_coupled.insert(ops.a[j].at("name").as_str());
      }
    }
    if (!hj_coupled.empty()) res.counters["probe.survivors_coupled_through_hidden_jacobian"]++;
  }
  std::string feature_diff, feature_sig;
  std::string sleeping;   // first occurrence of the variable-goes-to-sleep finding; the comparison goes on without that variable
  for (size_t i = 0; i < test.snaps.size() && !res.violation; i++) {
    Snap const &a = test.snaps[i], &b = twin.snaps[i];
    std::string at = "step " + std::to_string(a.step) + " (record " + std::to_string(i) + ")";
    if (getenv("CVSIM_C13_TRACE")) { fprintf(stderr, "rec %zu step %ld err %d/%d:", i, a.step, a.err, b.err); for (auto const &kv : b.cv) { auto it = a.cv.find(kv.first); fprintf(stderr, " %s=%.10g/%.10g act %d/%d", kv.first.c_str(), it == a.cv.end() || it->second.empty() ? NAN : it->second[0], kv.second.empty() ? NAN : kv.second[0], (int)(a.cv_active.count(kv.first) ? a.cv_active.at(kv.first) : -1), (int)b.cv_active.at(kv.first)); } fprintf(stderr, "\n"); }
    if (a.err != b.err) {
      std::string m = a.err ? a.errmsg : b.errmsg; std::string cls;
      // the twin's fictitious coordinate slept (its remaining biases were switched off or asleep) and is woken off schedule: the
      // library's complaint about that is the twin's own doing, not an effect of the deleted objects
      if (!a.err && m.find("extended-Lagrangian") != std::string::npos && m.find("but was activated after") != std::string::npos) { res.counters["probe.twin_woke_a_sleeping_fictitious_coordinate"]++; break; }
      for (char ch : m) { if (ch == '"') break; if (!isdigit((unsigned char)ch) && ch != '\n') cls += ch; }
      while (!cls.empty() && cls[0] == ' ') cls.erase(0, 1);
      if (cls.size() > 70) cls.resize(70);
      res.fail("twin", "error_raised_only_" + std::string(a.err ? "with_deleted_objects" : "in_twin") + "/" + cls, at + ": error bits " + std::to_string(a.err) + ", twin " + std::to_string(b.err) + ": " + m);
      break;
    }
    if (a.err && b.err) { res.counters["probe.runs_ending_in_a_step_error_in_both"]++; break; }   // a step that raises an error in both runs stops half-way: nothing defined to compare from here on
    if (a.cv.size() == b.cv.size() && a.be.size() == b.be.size()) {
      // same live objects: every object must have the same capabilities enabled as in the twin
      for (auto const &kv : b.feat) {
        auto it = a.feat.find(kv.first);
        if (it == a.feat.end() || it->second == kv.second) continue;
        // first differing feature
        std::set<std::string> fa, fb; std::string cur;
        for (char ch : it->second) { if (ch == ';') { fa.insert(cur); cur.clear(); } else cur += ch; }
        for (char ch : kv.second) { if (ch == ';') { fb.insert(cur); cur.clear(); } else cur += ch; }
        std::string which, how;
        // (the one capability known to change forces by itself is named in preference to the others)
        if (fa.count("hide_Jacobian_force") && !fb.count("hide_Jacobian_force")) { which = "hide_Jacobian_force"; how = "on_but_off_in_twin"; if (feature_sig.find("hide_Jacobian_force") == std::string::npos) feature_diff.clear(); }
        if (which.empty()) for (auto const &f : fb) if (!fa.count(f)) { which = f; how = "off_but_on_in_twin"; break; }
        if (which.empty()) for (auto const &f : fa) if (!fb.count(f)) { which = f; how = "on_but_off_in_twin"; break; }
        std::string kind = kv.first.substr(0, kv.first.find(' '));
        if (kind == "variable" && which == "active") { tainted.insert(kv.first.substr(9)); if (sleeping.empty()) sleeping = at + ": " + kv.first + " is no longer evaluated"; continue; }
        if (feature_diff.empty()) { feature_diff = at + ": " + kv.first + ": feature \"" + which + "\" is " + (how == "off_but_on_in_twin" ? "off, but on in the twin" : "on, but off in the twin"); feature_sig = "feature_differs/" + kind + "/" + which + "/" + how; }
      }
      // (a capability left enabled is not a violation by itself: it is reported with the observable difference it causes, if any)
    }
    bool twin_sleeps = false;
    for (auto const &kv : b.cv) {
      auto it = a.cv.find(kv.first);
      if (it == a.cv.end()) { res.fail("twin", "survivor_missing", at + ": variable " + kv.first + " exists in the twin but not in the run with deletions"); break; }
      // a variable whose biases all sleep at this step (timeStepFactor) is legitimately not evaluated: when that happens in the twin
      // there is nothing to compare at this step
      if (b.cv_active.count(kv.first) && !b.cv_active.at(kv.first)) {
        twin_sleeps = true;
        // a fictitious coordinate only integrates while its variable is awake: if a doomed bias kept it awake in the run with
        // deletions while it slept in the twin (switched-off or sleeping biases), its later history legitimately differs
        if (ext_names.count(kv.first) && a.cv_active.count(kv.first) && a.cv_active.at(kv.first)) tainted.insert(kv.first);
        continue;
      }
      bool inactive = a.cv_active.count(kv.first) && !a.cv_active.at(kv.first) && b.cv_active.count(kv.first) && b.cv_active.at(kv.first);
      if (inactive) tainted.insert(kv.first);
      if (tainted.count(kv.first)) { if (inactive && sleeping.empty()) sleeping = at + ": variable " + kv.first + " is no longer evaluated (value " + fmt_double(it->second.empty() ? 0 : it->second[0]) + ", twin " + fmt_double(kv.second.empty() ? 0 : kv.second[0]) + ")"; continue; }
      if (!same_vec(it->second, kv.second)) { res.fail("twin", inactive ? "variable_inactive_after_its_biases_were_deleted" : "value", at + ": variable " + kv.first + " = " + fmt_double(it->second.empty() ? 0 : it->second[0]) + ", twin " + fmt_double(kv.second.empty() ? 0 : kv.second[0])); break; }
      compared++;
    }
    if (res.violation) break;
    for (auto const &kv : b.be) {
      auto it = a.be.find(kv.first);
      if (it == a.be.end()) { res.fail("twin", "survivor_missing", at + ": bias " + kv.first + " exists in the twin but not in the run with deletions"); break; }
      if (hj_coupled.count(kv.first)) continue;
      if (!same_num(it->second, kv.second)) { res.fail("twin", "bias_energy", at + ": bias " + kv.first + " energy " + fmt_double(it->second) + ", twin " + fmt_double(kv.second)); break; }
    }
    if (res.violation) break;
    bool any_sleeping = false;
    for (auto const &kv : b.cv_active) if (kv.second && a.cv_active.count(kv.first) && !a.cv_active.at(kv.first)) any_sleeping = true;
    // (a sleeping variable applies no force either: totals are only compared on steps where none sleeps)
    bool coupled_alive = false; for (auto const &kv : b.be) if (hj_coupled.count(kv.first)) coupled_alive = true;
    bool same_sets = a.cv.size() == b.cv.size() && a.be.size() == b.be.size() && !any_sleeping && !twin_sleeps && tainted.empty() && !coupled_alive;
    if (same_sets) {
      full++;
      if (!same_vec(a.fapp, b.fapp)) {
        size_t k = 0; while (k < a.fapp.size() && a.fapp[k] == b.fapp[k]) k++;
        res.fail("twin", "atom_force", at + ": force component " + std::to_string(k) + " = " + fmt_double(k < a.fapp.size() ? a.fapp[k] : 0) + ", twin " + fmt_double(k < b.fapp.size() ? b.fapp[k] : 0));
      } else if (!same_num(a.energy, b.energy)) res.fail("twin", "total_energy", at + ": " + fmt_double(a.energy) + ", twin " + fmt_double(b.energy));
      else if (a.active_atoms != b.active_atoms) res.fail("twin", "active_atoms", at + ": " + std::to_string(a.active_atoms) + " atoms requested, twin " + std::to_string(b.active_atoms));
      else if (a.err != b.err) res.fail("twin", "error_bits", at + ": " + std::to_string(a.err) + ", twin " + std::to_string(b.err));
    }
    fp = fnv_dbl(a.energy, fp);
  }
  if (!res.violation && !sleeping.empty()) res.fail("twin", "variable_inactive_after_its_biases_were_deleted", sleeping);
  res.counters["probe.survivor_values_compared"] += compared;
  res.counters["probe.steps_with_identical_live_sets"] += full;
  res.nontrivial = ndel > 0 && !test.snaps.empty();
  res.class_hash = fnv_str(plan.at("scenario").at("template").as_str(), 13);
  res.fingerprint = fnv_u64(fp, res.fingerprint);
  if (res.violation) {
    if (!feature_sig.empty() && res.signature.find("variable_inactive") == std::string::npos && res.oracle == "twin") { res.signature += "/with_" + feature_sig; res.detail += "; " + feature_diff; }
    std::set<std::string> ts;
    for (auto const &op : plan.at("ops").a) if (op.at("op").as_str() == "addbias") ts.insert(op.at("tmpl").as_str());
    for (auto const &t : ts) res.features += (res.features.empty() ? "" : "+") + t;
    if (nrej) res.features += std::string(res.features.empty() ? "" : "+") + "rejected_definition";
  }
  return res;
}

Property make() {
  Property p;
  p.id = "C13"; p.level = "exploration"; p.design_ref = "DESIGN.md §7 C13";
  p.rule = "plan = 4-40 operations drawn from {add variable (5 kinds, some extended-Lagrangian), add bias (11 bias templates) on 1-2 existing variables, delete bias, delete variable (cascade), reset, run 1-6 steps} "
           "issued through the script entry points; twin = same plan without the operations that concern later-deleted objects; non-trivial = at least one object deleted and "
           "one step taken; distinct = hash of the operation-kind sequence";
  p.assumptions = {"same-step total forces and kinematic positions; extended-Lagrangian variables only ever carry biases that apply no force (ABF with applyBias off, histogram): a deleted object cannot have reached a survivor through the engine or through a fictitious coordinate",
                   "a definition that the library refuses counts as defined-then-deleted (the twin never issues it); a variable that went to sleep (known finding) is left out of the later comparison, the others are still compared",
                   "bitwise equality is required (same code, same inputs, same summation order of the survivors)",
                   "after a reset the driver re-applies the module-level settings in both runs"};
  p.real_components = {"colvardeps (enable/disable/ref counts)", "colvar/colvarbias/cvc/atom_group constructors and destructors", "colvarmodule::parse_config/reset", "colvarscript delete/reset/config commands", "proxy atom reference counts"};
  p.stub_components = {"MD engine (kinematic)", "file system (sim::FS)"};
  p.gen = gen; p.run = run;
  p.quick_runs = 10000; p.thorough_runs = 100000; p.quick_secs = 70; p.thorough_secs = 900;
  return p;
}
Registrar reg(make());

}  // namespace
