// Harness self-test (not a property): the harness's independent evaluation of the simple
// variable kinds (CvSpec::eval over TrajModel) agrees with the library's values.
#include "simrun.h"
#include "scenario.h"
#include <cmath>
#include <memory>
using namespace sim;
namespace {
J gen(uint64_t seed, bool) {
  Rng r(seed, 99);
  J plan = J::obj(); plan["v"] = 1; plan["property"] = "SELF"; plan["seed"] = (long long)seed;
  ScenOpts o; o.T = 6; o.max_biases = 1; o.max_cvs = 2; o.templates = {"harm_fixed"}; o.allow_mts = false;
  Scenario sc = gen_scenario(r, o);
  J sj = sc.to_json();
  J cvj = J::arr();
  for (auto &c : sc.cvs) { J q = J::obj(); q["kind"] = c.kind; J gs = J::arr(); for (auto &g : c.groups) { J ga = J::arr(); for (int id : g) ga.push(J(id)); gs.push(ga); } q["groups"] = gs; cvj.push(q); }
  sj["cvs"] = cvj;
  plan["scenario"] = sj; plan["ops"] = J::arr();
  return plan;
}
RunResult run(J const &plan) {
  RunResult res; SimRun sim(1);
  EngineCfg ec; std::string config; long T; scenario_from_json(plan.at("scenario"), ec, config, T);
  std::unique_ptr<Engine> e(new Engine(ec));
  if (e->configure(config) != COLVARS_OK) { sim.finish(res); return res; }
  e->run((int)T, false);
  TrajModel m; m.build(ec.data_seed, ec.natoms, ec.traj_amp, ec.force_amp, false);
  size_t k = 0;
  for (auto const &o : plan.at("scenario").at("cvs").a) {
    CvSpec c; c.kind = o.at("kind").as_str();
    for (auto const &g : o.at("groups").a) { std::vector<int> ids; for (auto const &id : g.a) ids.push_back((int)id.as_int()); c.groups.push_back(ids); }
    for (auto const &rec : e->rec) {
      double lib = rec.cv[(size_t)rec.cv_off[k]], mine = c.eval(m, rec.step);
      double d = std::fabs(lib - mine); if (c.kind == "dihedral" && d > 180) d = 360 - d;
      if (d > 1e-9 * (1 + std::fabs(lib))) res.fail("selftest", "eval/" + c.kind, "step " + std::to_string(rec.step) + " lib " + fmt_double(lib) + " harness " + fmt_double(mine));
    }
    k++;
  }
  res.nontrivial = true; res.class_hash = fnv_str(plan.at("scenario").at("template").as_str());
  sim.finish(res); return res;
}
Property make() { Property p; p.id = "SELF"; p.level = "other"; p.rule = "harness self-test"; p.gen = gen; p.run = run; p.quick_runs = 300; return p; }
Registrar reg(make());
}
