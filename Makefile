# Build of cvsim: real Colvars objects (from /repo/src, current working tree)
# + simulated environment (sim/) + per-property workloads and oracles (props/).
# Flavours: asan (ASan+UBSan, default), tsan (race oracle of C12), plain (-O2).

REPO    ?= /repo
SRC     := $(REPO)/src
FLAVOURS ?= asan tsan
B       := build

LIBSRC  := $(wildcard $(SRC)/[!.]*.cpp)
SIMSRC  := $(wildcard sim/*.cpp) $(wildcard props/*.cpp) $(wildcard models/*.cpp)
# files that must be invisible to the sanitizers (scheduler hand-off)
NOSAN   := sim/baton.cpp sim/simgomp.cpp

CXX     := g++
COMMON  := -g -fno-omit-frame-pointer -fopenmp -DCOLVARS_VERIF -I$(SRC) -w
LIBSTD  := -std=c++11
SIMSTD  := -std=c++17 -I. -Isim

FLAGS_asan  := -O1 -fsanitize=address,undefined -fno-sanitize-recover=undefined -fno-sanitize=alignment,vptr,nonnull-attribute,returns-nonnull-attribute
FLAGS_plain := -O2
FLAGS_tsan  := -O1 -fsanitize=thread

WRAPS := fopen64 fopen fclose fflush read write writev lseek64 fstat64 fstat access rename remove unlink getcwd rand
LDWRAP := $(foreach w,$(WRAPS),-Wl,--wrap=$(w))

all: $(foreach f,$(FLAVOURS),$(B)/$(f)/cvsim)

define FLAVOUR_RULES
LIBOBJ_$(1) := $$(patsubst $(SRC)/%.cpp,$(B)/$(1)/lib/%.o,$(LIBSRC))
SIMOBJ_$(1) := $$(patsubst %.cpp,$(B)/$(1)/%.o,$(SIMSRC))

$(B)/$(1)/lib/%.o: $(SRC)/%.cpp
	@mkdir -p $$(dir $$@)
	$(CXX) $(LIBSTD) $(COMMON) $$(FLAGS_$(1)) -MMD -MP -c $$< -o $$@

$(B)/$(1)/sim/baton.o $(B)/$(1)/sim/simgomp.o: $(B)/$(1)/sim/%.o: sim/%.cpp
	@mkdir -p $$(dir $$@)
	$(CXX) -std=c++17 -O1 -g -fno-omit-frame-pointer -I. -Isim -MMD -MP -c $$< -o $$@

$(B)/$(1)/%.o: %.cpp
	@mkdir -p $$(dir $$@)
	$(CXX) $(SIMSTD) $(COMMON) $$(FLAGS_$(1)) -DFLAVOUR_$(1) -MMD -MP -c $$< -o $$@

$(B)/$(1)/cvsim: $$(LIBOBJ_$(1)) $$(SIMOBJ_$(1))
	$(CXX) $$(FLAGS_$(1)) -o $$@ $$^ -static-libstdc++ $(LDWRAP) -lpthread

-include $$(LIBOBJ_$(1):.o=.d) $$(SIMOBJ_$(1):.o=.d)
endef

$(foreach f,asan plain tsan,$(eval $(call FLAVOUR_RULES,$(f))))

lib-%:
	$(MAKE) $(LIBOBJ_$*)

clean:
	rm -rf $(B)

.PHONY: all clean
