#!/bin/bash
# Runs the repository's pinned test suite with the verification guard OFF (plain CMake build of /repo).
set -e; mkdir -p /verif/build/logs
cmake --build /repo/_build -j16 > /verif/build/logs/baseline_build.log 2>&1 || { tail -30 /verif/build/logs/baseline_build.log; exit 2; }
ctest --test-dir /repo/_build -j8 --timeout 900 --output-junit /verif/build/logs/baseline.junit.xml "$@"
