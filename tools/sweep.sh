#!/bin/bash
# tools/sweep.sh <tier> <seed>...: soundness sweep — every registered check at several base seeds on the unchanged tree.
# Prints one line per (check, seed): exit code and any VIOLATION / NONDET lines.  Nothing here is evidence; it looks for false alarms.
tier=$1; shift
cd /verif
ids=$(python3 -c "import json; print(' '.join(c['property_id'] for c in json.load(open('MANIFEST.json'))['checks']))")
for seed in "$@"; do
  for id in $ids; do
    out=$(VERIF_SEED=$seed ./check $id --tier $tier $SWEEP_ARGS 2>&1); rc=$?
    echo "seed=$seed $id exit=$rc $(echo "$out" | grep -E "^$id (quick|thorough):" | tail -1)"
    echo "$out" | grep -E "^VIOLATION|NONDET|harness" | head -5
  done
done
