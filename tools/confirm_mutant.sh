#!/bin/bash
# tools/confirm_mutant.sh <worktree>: confirm a seeded change in its scratch worktree:
# demo fails with the change, test suite passes with the change, demo passes without it.
# (No `git stash`: the stash is shared by all worktrees of a repository.)
wt=$1; out=$wt/demo/CONFIRM.txt
cd $wt || exit 2
{
echo "== with change: build + demo"
cmake --build _build -j8 > /dev/null 2>&1; echo "build rc=$?"
bash demo/build_and_run.sh > demo/confirm_with.log 2>&1; echo "demo rc with change=$?"
echo "== with change: test suite"
ctest --test-dir _build -j8 --timeout 900 2>&1 | tail -4
echo "== without change"
git diff -- src > demo/.confirm_change.diff
git checkout -- src; cmake --build _build -j8 > /dev/null 2>&1; echo "build rc=$?"
bash demo/build_and_run.sh > demo/confirm_without.log 2>&1; echo "demo rc without change=$?"
git apply demo/.confirm_change.diff; rm -f demo/.confirm_change.diff
} > $out 2>&1
cat $out
