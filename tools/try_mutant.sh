#!/bin/bash
# tools/try_mutant.sh <patch.diff> <property id> [extra cvsim args]: apply a seeded change to /repo, run the quick check, undo.
patch=$1; prop=$2; shift 2
git -C /repo diff --quiet || { echo "/repo has uncommitted changes"; exit 2; }
git -C /repo apply "$patch" || { echo "patch does not apply"; exit 2; }
CVSIM_FLAVOUR=${CVSIM_FLAVOUR:-asan} /verif/check "$prop" --tier quick "$@" 2>&1 | grep -v "^colvars:" | grep "VIOLATION\|class:\|fine:\|detail:\|quick:\|KNOWN\|NONDET" | cut -c1-260
rc=${PIPESTATUS[0]}
git -C /repo checkout -- .
echo "exit=$rc"
