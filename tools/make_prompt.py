import json,sys
props={json.loads(l)['id']:json.loads(l) for l in open('/verif/properties.jsonl')}
tmpl=open('/verif/tools/mutant_prompt.txt').read()
for pid in sys.argv[1:]:
    p=props[pid]
    open('/tmp/prompt-%s.txt'%pid,'w').write(tmpl.format(wt='/tmp/wt-'+pid,id=pid,title=p['title'],statement=p['statement'],quant=p['quantifier']['text']))
