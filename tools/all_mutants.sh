#!/bin/bash
# tools/all_mutants.sh: applies every seeded change in turn, runs the quick check of its property, undoes it.
# Prints one line per change: caught (exit 1 with a VIOLATION line) or MISSED.  Rebuilds the clean tree at the end.
cd /verif
git -C /repo diff --quiet || { echo "/repo has uncommitted changes"; exit 2; }
for d in seeded/*/; do
  m=$(basename $d); id=${m%%-*}
  [ -s $d/patch.diff ] || continue
  git -C /repo apply /verif/$d/patch.diff 2>/dev/null || { echo "$m patch does not apply"; continue; }
  # (a change may name the check and tier that report it: seeded/<m>/check_override holds the arguments of ./check)
  if [ -s $d/check_override ]; then out=$(./check $(cat $d/check_override) 2>&1); rc=$?; else out=$(./check $id --tier quick 2>&1); rc=$?; fi
  git -C /repo checkout -- .
  n=$(echo "$out" | grep -c "^VIOLATION")
  cls=$(echo "$out" | grep "  class:" | head -1 | sed 's/  class: //')
  if [ $rc -eq 1 ] && [ $n -gt 0 ]; then echo "$m caught ($n reported; first: $cls)"; else echo "$m MISSED (exit $rc)"; fi
done
make -j16 > /dev/null 2>&1
